#!/bin/bash
# instr-preserves.sh: the instrumented copies (steps, dense; knob seam on) of
# /repo's working tree must still pass the repository's own test suite, i.e.
# the rewriter only adds calls and does not change behaviour.
cd "$(dirname "$0")/.."
VERIF=$(pwd); REPO=${VERIF_REPO:-/repo}
export GOFLAGS=-mod=mod GOPROXY=off GOSUMDB=off GOTOOLCHAIN=local
D=$(mktemp -d /var/tmp/instrp.XXXXXX); trap 'rm -rf $D' EXIT
(cd tools/instr && go build -o $D/instr .) || exit 2
rc=0
for mode in steps dense; do
  rm -rf $D/cm; mkdir -p $D/cm; rsync -a --exclude .git "$REPO"/ $D/cm/
  dirs=$(cd $D/cm && go list -f '{{.Dir}}' ./... | grep -v /internal/)
  $D/instr -mode $mode -sites $D/sites.json $dirs 2>/dev/null || { echo "$mode: instrumentation failed"; rc=1; continue; }
  printf '\nrequire verif/simrt v0.0.0\n\nreplace verif/simrt => %s\n' "$VERIF/simrt" >> $D/cm/go.mod
  if (cd $D/cm && go test -vet=off -count=1 ./... >$D/out.txt 2>&1); then echo "$mode: $(jq '.sites|length' $D/sites.json) sites, repository suite passes on the instrumented copy"; else echo "$mode: SUITE FAILS on the instrumented copy"; tail -20 $D/out.txt; rc=1; fi
done
exit $rc
