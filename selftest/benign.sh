#!/bin/bash
# benign.sh [patch...]: property-preserving changes (selftest/benign/*.patch: a correctly
# locked cache, a correctly used sync.Pool, bufio inside Format, wrapped reader
# errors, a different buffer growth policy without the knob constants, ...) must
# raise NO alarm: every claimed property's quick check has to exit 0 on each.
cd "$(dirname "$0")/.."
patches=("$@"); [ ${#patches[@]} -eq 0 ] && patches=(selftest/benign/*.patch)
rc=0
for p in "${patches[@]}"; do
  name=$(basename "$p" .patch)
  W=$(mktemp -d /var/tmp/ben.XXXXXX); rmdir "$W"
  git -C /repo worktree add -q --detach "$W" HEAD || continue
  git -C "$W" apply "$PWD/$p" || { echo "$name: PATCH-DOES-NOT-APPLY"; git -C /repo worktree remove --force "$W"; rc=1; continue; }
  for q in ${PROPS:-C01 C04 C08 C18 C19 C20}; do
    out=$(VERIF_REPO="$W" VERIF_EVIDENCE_DIR="$W/.evidence" ./check "$q" quick 2>&1); code=$?
    if [ $code = 0 ]; then echo "$name $q: clean"; else echo "$name $q: FALSE-ALARM-OR-ERROR exit=$code: $(echo "$out" | grep -a -e '^violation detail' -e '^check:' -e simcheck: | head -3 | cut -c1-400)"; rc=1; fi
  done
  git -C /repo worktree remove --force "$W"
done
exit $rc
