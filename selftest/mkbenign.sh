#!/bin/bash
# like mkmutant.sh but stores into selftest/benign/ (property-preserving changes)
set -e
name=$1; edit=$2
W=/var/tmp/ben.$$; rm -rf $W
git -C /repo worktree add -q --detach $W HEAD
trap 'git -C /repo worktree remove --force '$W' >/dev/null 2>&1 || true' EXIT
(cd $W && python3 $edit)
export GOFLAGS=-mod=mod GOPROXY=off GOSUMDB=off GOTOOLCHAIN=local
if ! (cd $W && gofmt -l . && go build ./... && go test -vet=off -count=1 ./... >/dev/null 2>&1); then echo "BENIGN $name: does not build or fails the pinned suite"; (cd $W && go build ./... 2>&1 | head); exit 1; fi
(cd $W && git diff) > /verif/selftest/benign/$name.patch
echo "BENIGN $name: ok ($(wc -l < /verif/selftest/benign/$name.patch) lines)"
