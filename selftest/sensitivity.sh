#!/bin/bash
# sensitivity.sh [patch...]: for each mutant patch (default: selftest/mutants/*.patch and
# seeded/*/patch.diff) apply it to a scratch worktree of /repo and run the quick
# check of the property named by the patch (file name prefix or meta.json);
# with ALL=1 also run every other claimed property's quick check.
# Prints one line per (mutant, property): DETECTED / missed / ERROR.
cd "$(dirname "$0")/.."
VERIF=$(pwd)
patches=("$@")
if [ ${#patches[@]} -eq 0 ]; then patches=(selftest/mutants/*.patch seeded/*/patch.diff); fi
for p in "${patches[@]}"; do
  [ -f "$p" ] || continue
  case "$p" in
    */patch.diff) name=$(basename "$(dirname "$p")"); prop=${PROP_OVERRIDE:-$(jq -r .property "$(dirname "$p")/meta.json")} ;;
    *) name=$(basename "$p" .patch); prop=${name%%-*} ;;
  esac
  W=$(mktemp -d /var/tmp/sens.XXXXXX); rmdir "$W"
  git -C /repo worktree add -q --detach "$W" HEAD || { echo "$name: worktree failed"; continue; }
  if ! git -C "$W" apply "$VERIF/$p" 2>/dev/null && ! git -C "$W" apply "$p"; then echo "$name $prop: PATCH-DOES-NOT-APPLY"; git -C /repo worktree remove --force "$W"; continue; fi
  props=$prop
  [ "${ALL:-0}" = 1 ] && props="$prop $(echo C01 C04 C08 C18 C19 C20 | tr ' ' '\n' | grep -v "^$prop$" | tr '\n' ' ')"
  for q in $props; do
    out=$(VERIF_REPO="$W" VERIF_EVIDENCE_DIR="$W/.evidence" ./check "$q" "${TIER:-quick}" 2>&1); code=$?
    v=$(echo "$out" | grep -a -c '^VIOLATION')
    ids=$(echo "$out" | grep -a '^violation detail' | sed -e 's/.*check=\([^ ]*\).*/\1/' | tr '\n' ',' )
    case $code in
      0) echo "$name $q: missed" ;;
      1) echo "$name $q: DETECTED ($v violations: $ids)" ;;
      *) echo "$name $q: ERROR exit=$code: $(echo "$out" | tail -3 | tr '\n' ' ')" ;;
    esac
  done
  git -C /repo worktree remove --force "$W"
done
rm -rf "$VERIF/replays.sens"
