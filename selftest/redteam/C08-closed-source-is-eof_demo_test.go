package commonmark

import (
	"errors"
	"io"
	"testing"
)

// C08: "If the reader fails after k bytes, the caller receives exactly the
// blocks of the first k bytes and then that error, persistently."
func TestDemoClosedPipeIsAnError(t *testing.T) {
	pr, pw := io.Pipe()
	go func() {
		pw.Write([]byte("first\n\nsec"))
		pr.Close() // reads now fail with io.ErrClosedPipe
	}()
	p := NewBlockParser(pr)
	var err error
	n := 0
	for {
		_, err = p.NextBlock()
		if err != nil {
			break
		}
		n++
	}
	if n != 2 {
		t.Errorf("got %d blocks, want 2", n)
	}
	if !errors.Is(err, io.ErrClosedPipe) {
		t.Errorf("terminal error = %v, want the reader's error %v (a truncated document must not look complete)", err, io.ErrClosedPipe)
	}
}
