package commonmark

import (
	"io"
	"strings"
	"testing"
)

// A caller that embeds the document in a larger file (front matter already
// consumed) rebases the positions of each block it receives into file
// coordinates.  The RootBlock is the caller's value; what it does with it must
// not change what the parser reports for later blocks.
func TestDemoCallerRebasesDeliveredBlocks(t *testing.T) {
	const doc = "first\n\nsecond\n\nthird\n"
	const base = 1000
	p := NewBlockParser(strings.NewReader(doc))
	for {
		b, err := p.NextBlock()
		if err == io.EOF {
			break
		}
		if err != nil {
			t.Fatal(err)
		}
		if b.EndOffset > int64(len(doc)) {
			t.Errorf("block %q reported at [%d,%d) of a %d-byte stream", b.Source, b.StartOffset, b.EndOffset, len(doc))
		} else if got, want := string(b.Source), doc[b.StartOffset:b.EndOffset]; got != want {
			t.Errorf("Source = %q, but doc[%d:%d] = %q", got, b.StartOffset, b.EndOffset, want)
		}
		b.StartOffset += base
		b.EndOffset += base
	}
}
