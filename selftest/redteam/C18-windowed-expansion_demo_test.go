package commonmark

import (
	"bytes"
	"testing"
)

// Every node is visited exactly once, in document order, also below a node
// with more children than any "typical" document has.
func TestDemoWalkVeryWideNode(t *testing.T) {
	const items = 40000
	var src bytes.Buffer
	for i := 0; i < items; i++ {
		src.WriteString("- x\n")
	}
	blocks, _ := Parse(src.Bytes())
	if len(blocks) != 1 || blocks[0].ChildCount() != items {
		t.Fatalf("unexpected tree: %d blocks", len(blocks))
	}
	list := blocks[0].AsNode()
	next, pre, post := 0, 0, 0
	Walk(list, &WalkOptions{
		Pre: func(c *Cursor) bool {
			if c.Parent() == list {
				pre++
				if c.Index() != next {
					t.Errorf("Pre: got child %d, want child %d", c.Index(), next)
					next = c.Index()
				}
				next++
			}
			return true
		},
		Post: func(c *Cursor) bool {
			if c.Parent() == list {
				post++
			}
			return true
		},
	})
	if pre != items || post != items {
		t.Errorf("visited %d/%d of %d list items", pre, post, items)
	}
}
