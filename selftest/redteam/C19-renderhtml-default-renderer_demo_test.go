package commonmark

import (
	"bytes"
	"sync"
	"testing"
)

// Several goroutines render the same parsed tree (and a second, independent
// one) through RenderHTML; every output must equal the sequential output.
// Run with -race to see the data race as well.
func TestDemoRenderHTMLConcurrent(t *testing.T) {
	var src bytes.Buffer
	for i := 0; i < 200; i++ {
		src.WriteString("See [the guide][g] and [the faq][f].\n\n")
	}
	src.WriteString("[g]: /guide 'Guide'\n[f]: /faq\n")
	blocks, refs := Parse(src.Bytes())
	blocks2, refs2 := Parse([]byte("plain *text* without references\n"))

	var want bytes.Buffer
	if err := RenderHTML(&want, blocks, refs); err != nil {
		t.Fatal(err)
	}
	var wg sync.WaitGroup
	bad := make(chan string, 64)
	for g := 0; g < 8; g++ {
		wg.Add(1)
		go func(g int) {
			defer wg.Done()
			for i := 0; i < 200; i++ {
				if g%2 == 1 {
					RenderHTML(new(bytes.Buffer), blocks2, refs2)
					continue
				}
				var got bytes.Buffer
				RenderHTML(&got, blocks, refs)
				if !bytes.Equal(got.Bytes(), want.Bytes()) {
					select {
					case bad <- got.String():
					default:
					}
					return
				}
			}
		}(g)
	}
	wg.Wait()
	select {
	case <-bad:
		t.Error("a concurrent RenderHTML of the shared tree produced output different from the sequential output")
	default:
	}
}
