package commonmark

import (
	"io"
	"os"
	"testing"
)

func streamAll(t *testing.T, r io.Reader) []*RootBlock {
	p := NewBlockParser(r)
	var got []*RootBlock
	for {
		b, err := p.NextBlock()
		if err == io.EOF {
			return got
		}
		if err != nil {
			t.Fatal(err)
		}
		got = append(got, b)
	}
}

// A regular file whose Stat size is 0 although it has content (procfs, sysfs,
// many FUSE file systems): streaming must still equal in-memory parsing.
func TestDemoProcFile(t *testing.T) {
	const name = "/proc/self/status"
	data, err := os.ReadFile(name)
	if err != nil || len(data) == 0 {
		t.Skip("no procfs")
	}
	f, err := os.Open(name)
	if err != nil {
		t.Skip(err)
	}
	defer f.Close()
	want, _ := Parse(data)
	got := streamAll(t, f)
	if len(got) == 0 || len(want) == 0 || string(got[0].Source[:5]) != string(want[0].Source[:5]) {
		t.Errorf("streaming %s: %d blocks; in-memory: %d blocks", name, len(got), len(want))
	}
}

// A file that receives its content after the parser was constructed but
// before the first NextBlock (NewBlockParser is documented to read lazily).
func TestDemoFileWrittenAfterConstruction(t *testing.T) {
	name := t.TempDir() + "/doc.md"
	w, err := os.Create(name)
	if err != nil {
		t.Fatal(err)
	}
	defer w.Close()
	f, err := os.Open(name)
	if err != nil {
		t.Fatal(err)
	}
	defer f.Close()
	p := NewBlockParser(f)
	if _, err := w.WriteString("# Hello\n\nworld\n"); err != nil {
		t.Fatal(err)
	}
	n := 0
	for {
		_, err := p.NextBlock()
		if err != nil {
			if err != io.EOF {
				t.Fatal(err)
			}
			break
		}
		n++
	}
	if n != 2 {
		t.Errorf("got %d blocks, want 2", n)
	}
}
