package commonmark

import (
	"errors"
	"syscall"
	"testing"
)

// failingReader delivers doc[:k], then fails once with err, and would go on
// delivering the rest of doc if it were asked again.
type failAtReader struct {
	doc  string
	k    int
	pos  int
	err  error
	sent bool
}

func (r *failAtReader) Read(p []byte) (int, error) {
	if r.pos >= r.k && !r.sent {
		r.sent = true
		return 0, r.err
	}
	end := len(r.doc)
	if !r.sent {
		end = r.k
	}
	if r.pos >= end {
		return 0, errors.New("second failure")
	}
	n := copy(p, r.doc[r.pos:end])
	r.pos += n
	return n, nil
}

// C08: "If the reader fails after k bytes, the caller receives exactly the
// blocks of the first k bytes and then that error, persistently."
func TestDemoReaderFailureTemporary(t *testing.T) {
	const doc = "first\n\nsecond\n\nthird\n"
	const k = 9 // inside "second"
	want, _ := Parse([]byte(doc[:k]))
	r := &failAtReader{doc: doc, k: k, err: syscall.EINTR}
	p := NewBlockParser(r)
	var got []*RootBlock
	var err error
	for {
		var b *RootBlock
		b, err = p.NextBlock()
		if err != nil {
			break
		}
		got = append(got, b)
	}
	if len(got) != len(want) {
		t.Errorf("got %d blocks, want the %d blocks of the first %d bytes", len(got), len(want), k)
	}
	if !errors.Is(err, syscall.EINTR) {
		t.Errorf("terminal error = %v, want the reader's error %v", err, syscall.EINTR)
	}
	if _, err2 := p.NextBlock(); !errors.Is(err2, syscall.EINTR) {
		t.Errorf("error not persistent: %v", err2)
	}
}
