package format

import (
	"errors"
	"io"
	"testing"

	"zombiezen.com/go/commonmark"
)

// shortOnce accepts part of the second write and reports io.ErrShortWrite
// (what a bufio.Writer over a short-writing sink, or a quota writer, does).
type shortOnce struct {
	calls     int
	failedAt  int
	afterFail int
}

func (w *shortOnce) Write(p []byte) (int, error) {
	w.calls++
	if w.failedAt > 0 {
		w.afterFail++
		return len(p), nil
	}
	if w.calls >= 2 && len(p) > 1 {
		w.failedAt = w.calls
		return 1, io.ErrShortWrite
	}
	return len(p), nil
}

func TestDemoFirstErrorShortWrite(t *testing.T) {
	blocks, _ := commonmark.Parse([]byte("> hello world\n> again\n\nsecond paragraph\n"))
	w := new(shortOnce)
	err := Format(w, blocks)
	if w.failedAt == 0 {
		t.Skip("writer never failed")
	}
	if !errors.Is(err, io.ErrShortWrite) {
		t.Errorf("Format returned %v, want the writer's first error (io.ErrShortWrite)", err)
	}
	if w.afterFail > 0 {
		t.Errorf("%d writes after the failing one", w.afterFail)
	}
}
