package commonmark

import (
	"bytes"
	"fmt"
	"sync"
	"testing"
)

// Goroutines render different small documents (each with its own link
// destination); every output must equal that document's sequential output.
// There is no data race to report here (the memo uses atomics): only the
// result is wrong, and only under a particular interleaving.
func TestDemoConcurrentRenderLinkDestinations(t *testing.T) {
	const G = 8
	type doc struct {
		blocks []*RootBlock
		refs   ReferenceMap
		want   []byte
	}
	docs := make([]doc, G)
	for g := range docs {
		src := fmt.Sprintf("[link](</path number %d/with spaces>)\n", g)
		docs[g].blocks, docs[g].refs = Parse([]byte(src))
		var want bytes.Buffer
		RenderHTML(&want, docs[g].blocks, docs[g].refs)
		docs[g].want = want.Bytes()
	}
	var wg sync.WaitGroup
	var mu sync.Mutex
	var bad string
	for g := 0; g < G; g++ {
		wg.Add(1)
		go func(d doc) {
			defer wg.Done()
			r := &HTMLRenderer{ReferenceMap: d.refs}
			var out []byte
			for i := 0; i < 300000; i++ {
				out = r.AppendBlock(out[:0], d.blocks[0])
				if !bytes.Equal(out, d.want) {
					mu.Lock()
					bad = fmt.Sprintf("got %q, want %q", out, d.want)
					mu.Unlock()
					return
				}
			}
		}(docs[g])
	}
	wg.Wait()
	if bad != "" {
		t.Error("concurrent render differs from sequential render: " + bad)
	}
}
