package format

import (
	"os"
	"testing"

	"zombiezen.com/go/commonmark"
)

// A file whose writes fail: /dev/full (ENOSPC on every write); a closed file
// behaves the same way (os.ErrClosed).
func TestDemoFailingFileReturnsError(t *testing.T) {
	blocks, _ := commonmark.Parse([]byte("# title\n\n- item one\n- item two\n\ntext\n"))
	f, err := os.OpenFile("/dev/full", os.O_WRONLY, 0)
	if err != nil {
		t.Skip(err)
	}
	defer f.Close()
	if err := Format(f, blocks); err == nil {
		t.Error("Format into a file whose every write fails with ENOSPC returned nil")
	}

	g, err := os.CreateTemp(t.TempDir(), "x")
	if err != nil {
		t.Fatal(err)
	}
	g.Close()
	if err := Format(g, blocks); err == nil {
		t.Error("Format into a closed file returned nil")
	}
}
