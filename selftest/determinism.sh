#!/bin/bash
# determinism.sh [props...]: the same VERIF_SEED must give identical per-phase
# event-log digests (every read / block / callback / context switch / task step
# count / race report of every evaluation, summed commutatively) whatever the
# worker count and GOMAXPROCS.  >= 7 driver runs (~80 worker processes) per property.
cd "$(dirname "$0")/.."
props=${@:-C01 C04 C08 C18 C19 C20}
D=$(mktemp -d /var/tmp/det.XXXXXX); trap 'rm -rf $D' EXIT
rc=0
for p in $props; do
  i=0
  for cfg in 16:1 16:1 16:4 16:16 4:1 4:4 5:2; do
    i=$((i+1))
    VERIF_WORKERS=${cfg%%:*} VERIF_GOMAXPROCS=${cfg##*:} VERIF_SEED=${VERIF_SEED:-424242} VERIF_SCALE=${VERIF_SCALE:-0.25} \
      VERIF_EVIDENCE_DIR=$D/ev VERIF_LOGDIGESTS=$D/$p.$i.dig ./check $p quick >$D/$p.$i.out 2>&1 || { echo "$p run $i ($cfg): check exited non-zero"; tail -3 $D/$p.$i.out; rc=1; }
  done
  n=$(cat $D/$p.*.dig | sort -u | wc -l); m=$(wc -l < $D/$p.1.dig)
  if [ "$n" = "$m" ]; then echo "$p: deterministic over 7 runs (workers 16/4/5, GOMAXPROCS 1/2/4/16): $m phase digests identical"; else echo "$p: NON-DETERMINISTIC: $n distinct digest lines for $m phases"; cat $D/$p.*.dig | sort | uniq -c | sort -n | head; rc=1; fi
done
exit $rc
