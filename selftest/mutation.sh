#!/bin/bash
# mutation.sh <file relative to /repo> <props> [funcs filter] : systematic
# sensitivity sweep.  Every syntactic mutant of the file (tools/mutate:
# relational/boolean/arithmetic operator swaps, small integer literals +-1,
# negated conditions, break<->continue, true<->false, deleted calls /
# assignments / inc-decs) that compiles AND passes the repository's own suite
# is run through the quick checks of the given properties.  Output: one line
# per mutant: nobuild | suite-kills | killed-by <prop> (<check ids>) | SURVIVED.
# Survivors are either equivalent mutants, changes that only touch unclaimed
# properties, or blind spots - they are meant to be read.
file=$1; props=$2; funcs=${3:-}
cd "$(dirname "$0")/.."
VERIF=$(pwd)
export GOFLAGS=-mod=mod GOPROXY=off GOSUMDB=off GOTOOLCHAIN=local
(cd tools/mutate && go build -o /var/tmp/mutate.bin .) || exit 2
n=$(/var/tmp/mutate.bin -ops ${MUT_OPS:-classic} -list ${funcs:+-funcs "$funcs"} /repo/$file | wc -l)
one() {
  i=$1
  desc=$(/var/tmp/mutate.bin -ops ${MUT_OPS:-classic} -list ${funcs:+-funcs "$funcs"} /repo/$file | sed -n "$((i+1))p" | cut -f2-)
  W=$(mktemp -d /var/tmp/mut.XXXXXX); rmdir "$W"
  git -C /repo worktree add -q --detach "$W" HEAD 2>/dev/null || { echo "$file#$i: worktree failed"; return; }
  /var/tmp/mutate.bin -ops ${MUT_OPS:-classic} -apply $i ${funcs:+-funcs "$funcs"} /repo/$file > "$W/$file" 2>/dev/null
  res=""
  if ! (cd "$W" && go build ./... >/dev/null 2>&1); then res="nobuild"
  elif ! (cd "$W" && timeout 300 go test -vet=off -count=1 ./... >/dev/null 2>&1); then res="suite-kills"
  else
    for q in $props; do
      out=$(VERIF_WORKERS=${MUT_WORKERS:-4} VERIF_REPO="$W" VERIF_EVIDENCE_DIR="$W/.evidence" ./check "$q" quick 2>&1); code=$?
      if [ $code = 1 ]; then ids=$(echo "$out" | grep -a '^violation detail' | sed -e 's/.*check=\([^ ]*\).*/\1/' | sort -u | tr '\n' ','); res="killed-by $q ($ids)"; break
      elif [ $code != 0 ]; then res="ERROR exit=$code in $q: $(echo "$out" | tail -2 | tr '\n' ' ' | cut -c1-300)"; break; fi
    done
    [ -z "$res" ] && res="SURVIVED"
  fi
  git -C /repo worktree remove --force "$W" 2>/dev/null
  echo "$file#$i [$desc]: $res"
}
export -f one; export file props funcs VERIF MUT_OPS
seq 0 $((n-1)) | xargs -P ${MUT_PAR:-4} -I{} bash -c 'one {}'
