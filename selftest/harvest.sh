#!/bin/bash
# harvest.sh <agent-id> <property>: confirm each change a sub-agent produced
# (/tmp/agent-<id>-out/<n>/) in a fresh scratch worktree and keep it as
# /verif/seeded/<property>-<id>-<n>/ only if: the patch applies and builds, the
# pinned suite passes with it (demo absent), the demo fails with it and passes without it.
id=$1; prop=$2
export GOFLAGS=-mod=mod GOPROXY=off GOSUMDB=off GOTOOLCHAIN=local
for d in /tmp/agent-$id-out/*/; do
  n=$(basename $d)
  [ -f $d/patch.diff ] || continue
  demo=$(ls $d/*_test.go 2>/dev/null | head -1)
  [ -n "$demo" ] || { echo "$id/$n: no demo"; continue; }
  pkgdir=.
  grep -q '^package format' $demo && pkgdir=format
  race=""; grep -qi -e '-race' $d/NOTES.md && race="-race"
  W=$(mktemp -d /var/tmp/harv.XXXXXX); rmdir $W
  git -C /repo worktree add -q --detach $W HEAD
  res=""
  # demo without change
  cp $demo $W/$pkgdir/zz_demo_test.go
  (cd $W/$pkgdir && go test $race -vet=off -count=1 -run . . >/dev/null 2>&1) && res="$res clean-demo-pass" || res="$res CLEAN-DEMO-FAILS"
  rm $W/$pkgdir/zz_demo_test.go
  if git -C $W apply $d/patch.diff 2>/dev/null; then
    (cd $W && go build ./... >/dev/null 2>&1 && go test -vet=off -count=1 ./... >/dev/null 2>&1) && res="$res suite-pass" || res="$res SUITE-FAILS"
    cp $demo $W/$pkgdir/zz_demo_test.go
    if (cd $W/$pkgdir && go test $race -vet=off -count=1 -run . . >/dev/null 2>&1); then res="$res DEMO-PASSES-WITH-CHANGE"; else res="$res demo-fails"; fi
  else
    res="$res PATCH-DOES-NOT-APPLY"
  fi
  git -C /repo worktree remove --force $W
  echo "$prop-$id-$n:$res (race=$race)"
  case "$res" in
    " clean-demo-pass suite-pass demo-fails")
      out=/verif/seeded/$prop-$id-$n; mkdir -p $out
      cp $d/patch.diff $out/patch.diff; cp $demo $out/demo_test.go; cp $d/NOTES.md $out/NOTES.md 2>/dev/null
      jq -n --arg p "$prop" --arg pk "$pkgdir" --arg r "$race" --arg id "$id-$n" \
        '{property:$p, id:$id, origin:"sub-agent given only the property text and a scratch worktree", demo_package_dir:$pk, demo_needs_race:($r!=""), confirmed:{pinned_suite_passes_with_change:true, demo_fails_with_change:true, demo_passes_without_change:true, command:("go test "+$r+" -vet=off -count=1 -run . . (demo copied into "+$pk+"/ of a scratch worktree)")}, needs_to_manifest:"see NOTES.md", detected_by:"(filled in after running the checks)"}' > $out/meta.json ;;
  esac
done
