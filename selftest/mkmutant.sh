#!/bin/bash
# mkmutant.sh <name> <python-edit-script-file>: applies an edit to a scratch worktree of /repo
# and stores the diff as selftest/mutants/<name>.patch after checking that it
# compiles and passes the repository's own test suite.
set -e
name=$1; edit=$2
W=/var/tmp/mut.$$; rm -rf $W
git -C /repo worktree add -q --detach $W HEAD
trap 'git -C /repo worktree remove --force '$W' >/dev/null 2>&1 || true' EXIT
(cd $W && python3 $edit)
export GOFLAGS=-mod=mod GOPROXY=off GOSUMDB=off GOTOOLCHAIN=local
if ! (cd $W && go build ./... && go test -vet=off -count=1 ./... >/dev/null 2>&1); then echo "MUTANT $name: does not build or fails the pinned suite - discarded"; exit 1; fi
(cd $W && git diff) > /verif/selftest/mutants/$name.patch
[ -s /verif/selftest/mutants/$name.patch ] || { echo "MUTANT $name: empty diff"; exit 1; }
echo "MUTANT $name: ok ($(wc -l < /verif/selftest/mutants/$name.patch) lines)"
