#!/usr/bin/env python3
# fillmeta.py <wave> <sensitivity-output-file>: record in seeded/<id>/meta.json what
# the checks reported for each change (last line per (change, property) wins) and
# take "needs_to_manifest" from the sub-agent's NOTES.md.
import json, sys, re, os
wave, path = int(sys.argv[1]), sys.argv[2]
res = {}
for line in open(path):
    m = re.match(r'^(\S+) (C\d\d): (.*)$', line.strip())
    if m:
        res.setdefault(m.group(1), {})[m.group(2)] = m.group(3)
for name, byprop in res.items():
    d = os.path.join(os.path.dirname(os.path.abspath(__file__)), '..', 'seeded', name)
    mp = os.path.join(d, 'meta.json')
    if not os.path.exists(mp):
        continue
    meta = json.load(open(mp))
    meta['detected_by'] = '; '.join('./check %s quick: %s' % (p, r) for p, r in sorted(byprop.items()))
    meta['ran'] = 'selftest/sensitivity.sh seeded/%s/patch.diff' % name
    meta['wave'] = wave
    notes = os.path.join(d, 'NOTES.md')
    if os.path.exists(notes) and meta.get('needs_to_manifest', '').startswith('see NOTES'):
        meta['needs_to_manifest'] = ' '.join(open(notes).read().split())[:1200]
    json.dump(meta, open(mp, 'w'), indent=1)
    print(name, meta['detected_by'])
