module verif/simrt

go 1.20
