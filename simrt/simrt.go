// Package simrt is the runtime half of the deterministic simulator: a step
// counter with a budget ("loops forever" = exceeds the budget), tuning knobs,
// and a hidden hand-off scheduler that decides which task goroutine runs.
//
// Everything that tasks and the scheduler share is a plain word with exactly
// one writer, accessed only from //go:norace functions, and waiting is a
// runtime.Gosched spin.  The race detector therefore sees no synchronisation
// between tasks (as is true of real, unsynchronised callers), while the
// execution is totally ordered and a pure function of the switch list.
package simrt

import (
	"runtime"
	"time"
)

const MaxTasks = 64

// SwitchEntry is one scheduling decision: run Task until it has executed
// Quantum yield steps, or (Site != 0) until its Nth hit of Site, whichever
// comes first; then park it and take the next entry.
type SwitchEntry struct {
	Task    int
	Quantum int64
	Site    uint32
	Nth     int32
}

// BudgetExceeded is the panic value raised by Yield when the step budget is
// exhausted.
type BudgetExceeded struct{ Steps uint64 }

var (
	steps  uint64
	budget uint64

	active   bool
	cur      int              // written by scheduler only
	grant    [MaxTasks]uint64 // written by scheduler only
	ack      [MaxTasks]uint64 // written by task t only
	done     [MaxTasks]uint64 // written by task t only
	quantum  [MaxTasks]int64  // written by scheduler before grant, then by the running task
	wantSite [MaxTasks]uint32 // scheduler
	wantNth  [MaxTasks]int32  // scheduler, then running task
	noYield  [MaxTasks]int32  // running task
	lastSite [MaxTasks]uint32 // running task
	tsteps   [MaxTasks]uint64 // running task: steps executed by task
	tbudget  uint64           // per-task step budget while scheduler active

	tgoid   [MaxTasks]int64 // goroutine id of task t, written by task t before its first grant
	stalls  uint64          // scheduled runs in which the running task blocked on another task
	freeRun bool            // after repeated stalls: tasks of later runs are released together

	foreign     bool   // the code under test started a goroutine of its own during this run
	foreignRuns uint64 // scheduled runs in which that happened

	everHit  []bool   // optional: sites executed at least once by this process (reach measure)
	siteHits []uint32 // optional per-site hit counters (coverage), len 0 = off

	knobs = map[string]int{}
)

// ---- environment seam ------------------------------------------------------
//
// The instrumenter redirects the library's reads of the wall clock, of the CPU
// count and of the global pseudo-random source to the functions below, so
// that all three are decided by the scenario (none exists on today's tree).

const clockEpoch = 1767225600 // 2026-01-01T00:00:00Z: where a process's simulated clock starts

var (
	clockNs       int64  // nanoseconds since clockEpoch; never decreases
	clockPerYield int64  // nanoseconds the clock advances at every yield step
	randState     uint64 // splitmix64 state of the simulated global random source
	envReads      uint64 // calls of the functions below (reach measure)
)

// AdvanceClock moves the simulated wall clock forward by jump nanoseconds
// (never back) and sets the rate at which it advances per yield step.
//
//go:norace
func AdvanceClock(jump, perYield int64) {
	if jump > 0 {
		clockNs += jump
	}
	if perYield < 0 {
		perYield = 0
	}
	clockPerYield = perYield
}

// SeedRand sets the state of the simulated global random source.
//
//go:norace
func SeedRand(seed uint64) { randState = seed }

// EnvReads is the number of environment reads the code under test has made.
//
//go:norace
func EnvReads() uint64 { return envReads }

//go:norace
func clockRead() int64 { envReads++; return clockNs }

// Now replaces time.Now: the simulated wall clock (no monotonic reading).
func Now() time.Time { return time.Unix(clockEpoch, clockRead()).UTC() }

// Since replaces time.Since.
func Since(t time.Time) time.Duration { return Now().Sub(t) }

// Until replaces time.Until.
func Until(t time.Time) time.Duration { return t.Sub(Now()) }

// Sleep replaces time.Sleep: simulated time passes, the caller yields.
//
//go:norace
func Sleep(d time.Duration) {
	envReads++
	if d > 0 {
		clockNs += int64(d)
	}
	Yield(1<<20 + 10)
}

// NumCPU replaces runtime.NumCPU: knob "cpus", else the real value.
func NumCPU() int { return cpus(runtime.NumCPU()) }

// GOMAXPROCS replaces runtime.GOMAXPROCS: a query (n < 1) answers with knob
// "cpus"; a request to change the setting is passed on.
func GOMAXPROCS(n int) int {
	if n >= 1 {
		return runtime.GOMAXPROCS(n)
	}
	return cpus(runtime.GOMAXPROCS(0))
}

//go:norace
func cpus(real int) int {
	envReads++
	if v, ok := knobs["cpus"]; ok && v > 0 {
		return v
	}
	return real
}

//go:norace
func randNext() uint64 {
	envReads++
	randState += 0x9e3779b97f4a7c15
	z := randState
	z = (z ^ (z >> 30)) * 0xbf58476d1ce4e5b9
	z = (z ^ (z >> 27)) * 0x94d049bb133111eb
	return z ^ (z >> 31)
}

func RandUint64() uint64   { return randNext() }
func RandUint32() uint32   { return uint32(randNext() >> 32) }
func RandInt63() int64     { return int64(randNext() >> 1) }
func RandInt31() int32     { return int32(randNext() >> 33) }
func RandInt() int         { return int(uint(randNext()) >> 1) }
func RandFloat64() float64 { return float64(randNext()>>11) / (1 << 53) }
func RandFloat32() float32 { return float32(randNext()>>40) / (1 << 24) }
func RandIntn(n int) int {
	if n <= 0 {
		panic("invalid argument to Intn")
	}
	return int(randNext() % uint64(n))
}
func RandInt31n(n int32) int32 {
	if n <= 0 {
		panic("invalid argument to Int31n")
	}
	return int32(randNext() % uint64(n))
}
func RandInt63n(n int64) int64 {
	if n <= 0 {
		panic("invalid argument to Int63n")
	}
	return int64(randNext() % uint64(n))
}
func RandUintn(n uint) uint       { return uint(randNext() % uint64(n)) }
func RandUint64n(n uint64) uint64 { return randNext() % n }

// Knob returns the configured value of a tuning knob, or def.
func Knob(name string, def int) int {
	if v, ok := knobs[name]; ok {
		return v
	}
	return def
}

// SetKnob overrides a knob (v <= 0 removes the override).
func SetKnob(name string, v int) {
	if v <= 0 {
		delete(knobs, name)
		return
	}
	knobs[name] = v
}

// Current returns the index of the task the scheduler is running, or -1 when
// no scheduled execution is in progress.
//
//go:norace
func Current() int {
	if !active {
		return -1
	}
	return cur
}

//go:norace
func Steps() uint64 { return steps }

//go:norace
func ResetSteps() { steps = 0 }

// SetBudget sets the global step budget (0 = unlimited) and resets the counter.
//
//go:norace
func SetBudget(b uint64) { budget = b; steps = 0 }

// EnableCoverage starts recording which of n sites this process ever executes.
func EnableCoverage(n int) { everHit = make([]bool, n+1) }

// Covered returns the ids of the sites executed so far.
//
//go:norace
func Covered() []uint32 {
	var out []uint32
	for id, h := range everHit {
		if h {
			out = append(out, uint32(id))
		}
	}
	return out
}

// EnableSiteHits allocates per-site hit counters for n sites.
func EnableSiteHits(n int) { siteHits = make([]uint32, n+1) }

// SiteHits returns the per-site counters.
func SiteHits() []uint32 { return siteHits }

// Yield is called at every instrumented site of the code under test and from
// the harness's own stubs.
//
//go:norace
func Yield(site uint32) {
	steps++
	clockNs += clockPerYield
	if budget != 0 && steps > budget {
		b := steps
		budget = 0
		panic(BudgetExceeded{b})
	}
	if int(site) < len(siteHits) {
		siteHits[site]++
	}
	if int(site) < len(everHit) {
		everHit[site] = true
	}
	if !active || foreign {
		return
	}
	t := cur
	tsteps[t]++
	lastSite[t] = site
	if tbudget != 0 && tsteps[t] > tbudget {
		tsteps[t] = 0
		panic(BudgetExceeded{tbudget})
	}
	if noYield[t] > 0 {
		return
	}
	quantum[t]--
	hit := false
	if wantSite[t] != 0 && wantSite[t] == site {
		wantNth[t]--
		if wantNth[t] <= 0 {
			hit = true
		}
	}
	if quantum[t] > 0 && !hit {
		return
	}
	if id := tgoid[t]; id != 0 && curGoid() != id {
		// this yield was executed by a goroutine that is not the running task
		// (a finalizer, a timer function, a helper the instrumenter did not see
		// being started): parking it under the task's name would wedge the
		// hand-off.  Same consequence as Foreign: nobody is parked any more.
		foreign = true
		foreignRuns++
		return
	}
	park(t)
}

// Foreign is called (by instrumented code) immediately before the code under
// test starts a goroutine of its own.  A yield executed by such a goroutine
// cannot be told apart from one executed by the running task, so from here to
// the end of the scheduled run nobody is parked any more: the running task and
// its helpers run freely to completion, then the remaining tasks run one after
// the other.  Results and race reports stay meaningful, only the interleaving
// is no longer enumerated for that scenario.
//
//go:norace
func Foreign(int32) {
	if active && !foreign {
		foreign = true
		foreignRuns++
	}
}

// ForeignRuns is the number of scheduled runs that hit Foreign.
//
//go:norace
func ForeignRuns() uint64 { return foreignRuns }

// NoYield brackets a region in which the running task must not be parked
// (it holds a lock).
//
//go:norace
func NoYield(d int32) {
	if !active {
		return
	}
	noYield[cur] += d
}

//go:norace
func setGoid(t int) { tgoid[t] = curGoid() }

//go:norace
func park(t int) {
	g := grant[t]
	ack[t] = g
	for grant[t] == g {
		runtime.Gosched()
	}
}

//go:norace
func waitFirstGrant(t int) {
	for grant[t] == 0 {
		runtime.Gosched()
	}
}

//go:norace
func finish(t int) {
	done[t] = 1
	ack[t] = grant[t]
}

// Result of one scheduled execution.
type SchedResult struct {
	Switches  int         // context switches actually performed
	Preempt   [][3]uint32 // (site where outgoing task parked, site where incoming task resumes, task<<8|task)
	TaskSteps []uint64
	Consumed  int // entries of the switch list consumed
}

// Run executes bodies[t] as task t, one at a time, under the given switch
// list; when the list is exhausted the remaining tasks run to completion in
// index order.  taskBudget bounds the yield steps of each task (0 = none).
// A panic inside a body must be recovered by the body itself.
func Run(bodies []func(), list []SwitchEntry, taskBudget uint64) SchedResult {
	n := len(bodies)
	if n > MaxTasks {
		panic("simrt: too many tasks")
	}
	reset(n, taskBudget)
	fin := make(chan struct{}, n)
	for t := 0; t < n; t++ {
		t := t
		go func() {
			setGoid(t)
			waitFirstGrant(t)
			bodies[t]()
			finish(t)
			fin <- struct{}{}
		}()
	}
	res := schedule(n, list)
	deactivate()
	for t := 0; t < n; t++ {
		<-fin
	}
	res.TaskSteps = make([]uint64, n)
	for t := 0; t < n; t++ {
		res.TaskSteps[t] = readTSteps(t)
	}
	return res
}

//go:norace
func readTSteps(t int) uint64 { return tsteps[t] }

//go:norace
func reset(n int, taskBudget uint64) {
	for t := 0; t < MaxTasks; t++ {
		grant[t], ack[t], done[t], quantum[t] = 0, 0, 0, 0
		wantSite[t], wantNth[t], noYield[t], lastSite[t], tsteps[t] = 0, 0, 0, 0, 0
	}
	tbudget = taskBudget
	cur = 0
	foreign = false
	active = true
}

//go:norace
func deactivate() { active = false; tbudget = 0 }

// stallCheckEvery: how often the scheduler, while waiting for the task it
// released, asks the runtime what that task's goroutine is doing.  A task on
// this workload runs for milliseconds, so the question is rare.
const stallCheckEvery = 1 * time.Second

// awaitAck waits until task t has parked or finished.  It returns false when
// t's goroutine is BLOCKED inside the code under test (channel operation,
// semaphore, condition variable, sleep): nothing but a parked task could wake
// it.  A goroutine that is merely slow (runnable, starved by machine load) is
// waited for indefinitely; the worker's wall-clock watchdog covers real hangs.
//
//go:norace
func awaitAck(t int, g uint64) bool {
	var last time.Time
	for spins := 1; ack[t] != g; spins++ {
		runtime.Gosched()
		if spins%4096 == 0 {
			now := time.Now()
			if last.IsZero() {
				last = now
			} else if now.Sub(last) > stallCheckEvery {
				last = now
				if goroutineBlocked(tgoid[t]) && ack[t] != g {
					return false
				}
			}
		}
	}
	return true
}

// goroutineBlocked asks the runtime for all goroutine headers and reports
// whether goroutine id is in a waiting state.
//
//go:norace
func goroutineBlocked(id int64) bool {
	if id == 0 {
		return false
	}
	buf := make([]byte, 1<<20)
	n := runtime.Stack(buf, true)
	want := "goroutine " + itoa(id) + " ["
	txt := string(buf[:n])
	i := index(txt, want)
	if i < 0 {
		return false
	}
	state := txt[i+len(want):]
	if j := index(state, "]"); j >= 0 {
		state = state[:j]
	}
	for _, w := range []string{"chan receive", "chan send", "select", "semacquire", "sync.", "sleep", "IO wait", "finalizer wait"} {
		if len(state) >= len(w) && state[:len(w)] == w {
			return true
		}
	}
	return false // running, runnable, syscall, ...: not blocked, only slow
}

func itoa(v int64) string {
	if v == 0 {
		return "0"
	}
	var b [20]byte
	i := len(b)
	for v > 0 {
		i--
		b[i] = byte('0' + v%10)
		v /= 10
	}
	return string(b[i:])
}

func index(s, sub string) int {
	for i := 0; i+len(sub) <= len(s); i++ {
		if s[i:i+len(sub)] == sub {
			return i
		}
	}
	return -1
}

//go:norace
func curGoid() int64 {
	var buf [64]byte
	n := runtime.Stack(buf[:], false)
	var id int64
	for _, c := range buf[len("goroutine "):n] {
		if c < '0' || c > '9' {
			break
		}
		id = id*10 + int64(c-'0')
	}
	return id
}

//go:norace
func releaseAll(n int) {
	foreign = true // nobody parks any more
	stalls++
	if stalls >= 3 {
		freeRun = true
	}
	for i := 0; i < n; i++ {
		if done[i] == 0 {
			grant[i]++
		}
	}
	for i := 0; i < n; i++ {
		for done[i] == 0 {
			runtime.Gosched()
		}
	}
}

// FreeRunning reports whether the scheduled run in progress has given up
// hand-off (library-internal goroutines, or a task blocked on a parked task):
// Current() no longer identifies the caller then.
//
//go:norace
func FreeRunning() bool { return active && foreign }

// Stalls is the number of scheduled runs that had to be finished
// free-running because a task blocked on a parked task.
//
//go:norace
func Stalls() uint64 { return stalls }

const maxPreemptLog = 4096

// schedule is the scheduler loop.  It runs on the caller's goroutine; the
// caller does nothing else meanwhile.
//
//go:norace
func schedule(n int, list []SwitchEntry) SchedResult {
	var res SchedResult
	var log [maxPreemptLog][3]uint32
	nlog := 0
	prev := -1
	li := 0
	if freeRun {
		// this process has met code under test that makes its callers wait
		// for each other: no hand-off for the rest of the process
		releaseAll(n)
		return res
	}
	for {
		// pick next entry whose task is not done
		t := -1
		var q int64
		var ws uint32
		var wn int32
		for li < len(list) {
			e := list[li]
			li++
			if e.Task >= 0 && e.Task < n && done[e.Task] == 0 && e.Quantum > 0 {
				t, q, ws, wn = e.Task, e.Quantum, e.Site, e.Nth
				break
			}
		}
		if t < 0 {
			for i := 0; i < n; i++ {
				if done[i] == 0 {
					t, q = i, 1<<62
					break
				}
			}
		}
		if t < 0 {
			break
		}
		if prev >= 0 && prev != t {
			res.Switches++
			if nlog < maxPreemptLog {
				log[nlog] = [3]uint32{lastSite[prev], lastSite[t], uint32(prev)<<8 | uint32(t)}
				nlog++
			}
		}
		prev = t
		quantum[t] = q
		wantSite[t] = ws
		wantNth[t] = wn
		cur = t
		g := grant[t] + 1
		grant[t] = g
		if !awaitAck(t, g) {
			// The running task neither parked nor finished for stallLimit of
			// wall clock: it is blocked inside the code under test waiting for
			// something only a PARKED task can do (a library that coordinates
			// its callers: single-flight, a condition variable, a channel).
			// Hand-off cannot continue; release everybody and let the
			// scenario finish free-running (results and race reports stay
			// valid, the interleaving is no longer the scheduler's).
			releaseAll(n)
			break
		}
	}
	res.Consumed = li
	res.Preempt = make([][3]uint32, nlog)
	copy(res.Preempt, log[:nlog])
	return res
}
