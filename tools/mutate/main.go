// Command mutate enumerates and applies small syntactic mutations to one Go
// source file (self-test of the checks' sensitivity: selftest/mutation.sh).
//
//	mutate -list file.go            one line per mutation point: index, position, description
//	mutate -apply N file.go > out   the file with mutation N applied
package main

import (
	"bytes"
	"flag"
	"fmt"
	"go/ast"
	"go/format"
	"go/parser"
	"go/token"
	"os"
	"strconv"
	"strings"
)

type mutation struct {
	pos   token.Pos
	desc  string
	apply func()
}

func main() {
	list := flag.Bool("list", false, "")
	apply := flag.Int("apply", -1, "")
	ops := flag.String("ops", "classic", "classic: operator / literal / condition / deleted-statement mutants; returns: deleted early returns and 'return err' -> 'return nil'")
	fnFilter := flag.String("funcs", "", "comma-free regexp-less filter: only functions whose name contains one of these |-separated substrings")
	flag.Parse()
	path := flag.Arg(0)
	fset := token.NewFileSet()
	f, err := parser.ParseFile(fset, path, nil, parser.ParseComments)
	if err != nil {
		fmt.Fprintln(os.Stderr, err)
		os.Exit(2)
	}
	var muts []mutation
	add := func(p token.Pos, d string, a func()) { muts = append(muts, mutation{p, d, a}) }
	want := func(name string) bool {
		if *fnFilter == "" {
			return true
		}
		for _, s := range bytes.Split([]byte(*fnFilter), []byte("|")) {
			if bytes.Contains([]byte(name), s) {
				return true
			}
		}
		return false
	}
	for _, d := range f.Decls {
		fd, ok := d.(*ast.FuncDecl)
		if !ok || fd.Body == nil || !want(fd.Name.Name) {
			continue
		}
		if *ops == "returns" {
			collectReturns(fd.Body, add)
		} else {
			collect(fd.Body, add)
		}
	}
	if *list {
		for i, m := range muts {
			p := fset.Position(m.pos)
			fmt.Printf("%d\t%d:%d\t%s\n", i, p.Line, p.Column, m.desc)
		}
		return
	}
	if *apply < 0 || *apply >= len(muts) {
		fmt.Fprintln(os.Stderr, "no such mutation")
		os.Exit(2)
	}
	muts[*apply].apply()
	var buf bytes.Buffer
	if err := format.Node(&buf, fset, f); err != nil {
		fmt.Fprintln(os.Stderr, err)
		os.Exit(2)
	}
	os.Stdout.Write(buf.Bytes())
}

var swapOp = map[token.Token]token.Token{
	token.LSS: token.LEQ, token.LEQ: token.LSS, token.GTR: token.GEQ, token.GEQ: token.GTR,
	token.EQL: token.NEQ, token.NEQ: token.EQL, token.LAND: token.LOR, token.LOR: token.LAND,
	token.ADD: token.SUB, token.SUB: token.ADD,
}

func collect(body *ast.BlockStmt, add func(token.Pos, string, func())) {
	ast.Inspect(body, func(n ast.Node) bool {
		switch x := n.(type) {
		case *ast.BinaryExpr:
			if to, ok := swapOp[x.Op]; ok {
				from := x.Op
				// string concatenation stays
				if from == token.ADD || from == token.SUB {
					if isStringy(x.X) || isStringy(x.Y) {
						return true
					}
				}
				add(x.OpPos, fmt.Sprintf("%s -> %s", from, to), func() { x.Op = to })
			}
		case *ast.BasicLit:
			if x.Kind == token.INT {
				if v, err := strconv.ParseInt(x.Value, 0, 64); err == nil && v >= 0 && v <= 16 {
					add(x.Pos(), fmt.Sprintf("%d -> %d", v, v+1), func() { x.Value = strconv.FormatInt(v+1, 10) })
					if v > 0 {
						add(x.Pos(), fmt.Sprintf("%d -> %d", v, v-1), func() { x.Value = strconv.FormatInt(v-1, 10) })
					}
				}
			}
		case *ast.IfStmt:
			add(x.Cond.Pos(), "negate if condition", func() { x.Cond = &ast.UnaryExpr{Op: token.NOT, X: &ast.ParenExpr{X: x.Cond}} })
		case *ast.BranchStmt:
			if x.Label == nil && x.Tok == token.BREAK {
				add(x.Pos(), "break -> continue", func() { x.Tok = token.CONTINUE })
			} else if x.Label == nil && x.Tok == token.CONTINUE {
				add(x.Pos(), "continue -> break", func() { x.Tok = token.BREAK })
			}
		case *ast.Ident:
			if x.Name == "true" {
				add(x.Pos(), "true -> false", func() { x.Name = "false" })
			} else if x.Name == "false" {
				add(x.Pos(), "false -> true", func() { x.Name = "true" })
			}
		case *ast.BlockStmt:
			for i, s := range x.List {
				x, i := x, i
				switch st := s.(type) {
				case *ast.ExprStmt:
					add(st.Pos(), "delete call statement", func() { x.List[i] = &ast.EmptyStmt{Semicolon: st.Pos()} })
				case *ast.IncDecStmt:
					add(st.Pos(), "delete inc/dec", func() { x.List[i] = &ast.EmptyStmt{Semicolon: st.Pos()} })
				case *ast.AssignStmt:
					if st.Tok != token.DEFINE {
						add(st.Pos(), "delete assignment", func() { x.List[i] = &ast.EmptyStmt{Semicolon: st.Pos()} })
					}
				}
			}
		}
		return true
	})
}

// collectReturns: the "forgot the early return" and "swallowed the error"
// family - an early bare return deleted (execution continues past the
// guard), a returned error value replaced by nil.
func collectReturns(body *ast.BlockStmt, add func(token.Pos, string, func())) {
	ast.Inspect(body, func(n ast.Node) bool {
		bs, ok := n.(*ast.BlockStmt)
		if !ok {
			return true
		}
		for i, st := range bs.List {
			rs, ok := st.(*ast.ReturnStmt)
			if !ok {
				continue
			}
			bs, i, rs := bs, i, rs
			if len(rs.Results) == 0 && bs != body {
				add(rs.Pos(), "delete early return", func() { bs.List[i] = &ast.EmptyStmt{Semicolon: rs.Pos()} })
			}
			for k, res := range rs.Results {
				k := k
				if id, ok := res.(*ast.Ident); ok && (id.Name == "err" || strings.HasSuffix(id.Name, "Err")) {
					add(res.Pos(), "return "+id.Name+" -> nil", func() { rs.Results[k] = ast.NewIdent("nil") })
				}
				if sel, ok := res.(*ast.SelectorExpr); ok && sel.Sel.Name == "err" {
					add(res.Pos(), "return x.err -> nil", func() { rs.Results[k] = ast.NewIdent("nil") })
				}
			}
		}
		return true
	})
}

func isStringy(e ast.Expr) bool {
	switch x := e.(type) {
	case *ast.BasicLit:
		return x.Kind == token.STRING || x.Kind == token.CHAR
	case *ast.CallExpr:
		if id, ok := x.Fun.(*ast.Ident); ok && id.Name == "string" {
			return true
		}
	}
	return false
}
