module verif/tools/mutate

go 1.20
