module verif/tools/instr

go 1.20
