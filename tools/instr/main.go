// Command instr rewrites a scratch copy of the code under test for the
// deterministic simulator.  It only ever ADDS code:
//
//   - simrt.Yield(<site>) at the start of every function body, function
//     literal body and for/range body (mode "steps"), additionally before
//     every statement of every block and case clause (mode "dense");
//   - simrt.NoYield(+1/-1) around mutex critical sections and once.Do calls,
//     so that a task is never parked while it holds a lock;
//   - simrt.Foreign(1) before every go statement of the code under test
//     (none today): once the library runs goroutines of its own, the
//     scheduler stops preempting for the rest of that scenario;
//   - the knob seam: a `const ( chunkSize = ...; maxBlockSize = ... )`
//     declaration inside a function becomes a `var` read from simrt.Knob with
//     the original expression as default.
//   - the environment seam (every mode): calls of time.Now / time.Since /
//     time.Until / time.Sleep, runtime.NumCPU / runtime.GOMAXPROCS and the
//     top-level functions of math/rand (and math/rand/v2) are redirected to
//     simrt, where the SCENARIO decides the wall clock (start, rate per yield
//     step, jumps), the number of CPUs the library believes it has, and the
//     pseudo-random stream.  None on today's tree; a change that adds a cache
//     with a time-to-live, a path gated on the CPU count or random sampling
//     is then still a pure function of the scenario.
//
// Usage: instr -mode knob|steps|dense -sites out.json dir...
package main

import (
	"bytes"
	"encoding/json"
	"flag"
	"fmt"
	"go/ast"
	"go/format"
	"go/parser"
	"go/token"
	"os"
	"path/filepath"
	"sort"
	"strconv"
	"strings"
)

type site struct {
	ID   int    `json:"id"`
	File string `json:"file"`
	Line int    `json:"line"`
	Kind string `json:"kind"`
	Func string `json:"func"`
}

var (
	mode      = flag.String("mode", "steps", "knob|steps|dense")
	sitesOut  = flag.String("sites", "", "write site table (JSON) here")
	noKnob    = flag.Bool("noknob", false, "do not rewrite the knob constants")
	knobNames = map[string]bool{"chunkSize": true, "maxBlockSize": true}

	sites     []site
	envSites  = map[string]int{} // redirected environment calls, by "pkg.Func"
	envLeft   = map[string]int{} // environment calls left alone (timers, tickers, rand.New, ...)
	goStmts   int
	knobFound []string
	nextID    = 1
)

func main() {
	flag.Parse()
	for _, dir := range flag.Args() {
		ents, err := os.ReadDir(dir)
		if err != nil {
			fatal(err)
		}
		var names []string
		for _, e := range ents {
			n := e.Name()
			if e.IsDir() || !strings.HasSuffix(n, ".go") || strings.HasSuffix(n, "_test.go") {
				continue
			}
			names = append(names, n)
		}
		sort.Strings(names)
		for _, n := range names {
			if err := rewriteFile(filepath.Join(dir, n), filepath.Base(dir)+"/"+n); err != nil {
				fatal(err)
			}
		}
	}
	if *sitesOut != "" {
		out := struct {
			Mode  string         `json:"mode"`
			Knobs []string       `json:"knobs"`
			Sites []site         `json:"sites"`
			GoStm int            `json:"go_statements"`
			Env   map[string]int `json:"env_redirected"`
			EnvNo map[string]int `json:"env_not_simulated"`
		}{*mode, knobFound, sites, goStmts, envSites, envLeft}
		b, _ := json.Marshal(out)
		if err := os.WriteFile(*sitesOut, b, 0o644); err != nil {
			fatal(err)
		}
	}
	fmt.Fprintf(os.Stderr, "instr: mode=%s sites=%d knobs=%v\n", *mode, len(sites), knobFound)
}

func fatal(err error) {
	fmt.Fprintln(os.Stderr, "instr:", err)
	os.Exit(2)
}

type rewriter struct {
	fset    *token.FileSet
	rel     string
	fn      string
	changed bool
}

func rewriteFile(path, rel string) error {
	fset := token.NewFileSet()
	src, err := os.ReadFile(path)
	if err != nil {
		return err
	}
	if bytes.Contains(src, []byte("// Code generated")) && bytes.Contains(src, []byte("DO NOT EDIT")) && *mode != "knob" {
		// generated stringers: still instrumented (they are plain code)
	}
	f, err := parser.ParseFile(fset, path, src, parser.ParseComments)
	if err != nil {
		return err
	}
	for _, imp := range f.Imports {
		if imp.Name != nil && imp.Name.Name == "simrt" {
			return fmt.Errorf("%s: already imports simrt", path)
		}
	}
	rw := &rewriter{fset: fset, rel: rel}
	for _, d := range f.Decls {
		fd, ok := d.(*ast.FuncDecl)
		if !ok || fd.Body == nil {
			continue
		}
		rw.fn = fd.Name.Name
		if fd.Recv != nil && len(fd.Recv.List) > 0 {
			rw.fn = recvName(fd.Recv.List[0].Type) + "." + fd.Name.Name
		}
		rw.block(fd.Body, "func")
	}
	// function literals in package-level var initialisers
	for _, d := range f.Decls {
		gd, ok := d.(*ast.GenDecl)
		if !ok {
			continue
		}
		rw.fn = "init"
		ast.Inspect(gd, func(n ast.Node) bool {
			if fl, ok := n.(*ast.FuncLit); ok {
				rw.block(fl.Body, "funclit")
				return false
			}
			return true
		})
	}
	if rw.envSeam(f) {
		rw.changed = true
	}
	if !rw.changed {
		return nil
	}
	addImport(f)
	var buf bytes.Buffer
	if err := format.Node(&buf, fset, f); err != nil {
		return err
	}
	return os.WriteFile(path, buf.Bytes(), 0o644)
}

// envFuncs: package path -> function -> simrt replacement ("" = counted as not simulated).
var envFuncs = map[string]map[string]string{
	"time": {"Now": "Now", "Since": "Since", "Until": "Until", "Sleep": "Sleep",
		"After": "", "AfterFunc": "", "NewTimer": "", "NewTicker": "", "Tick": ""},
	"runtime": {"NumCPU": "NumCPU", "GOMAXPROCS": "GOMAXPROCS"},
	"math/rand": {"Int": "RandInt", "Intn": "RandIntn", "Int31": "RandInt31", "Int31n": "RandInt31n", "Int63": "RandInt63", "Int63n": "RandInt63n",
		"Uint32": "RandUint32", "Uint64": "RandUint64", "Float64": "RandFloat64", "Float32": "RandFloat32",
		"Perm": "", "Shuffle": "", "New": "", "NewSource": "", "Seed": "", "Read": ""},
	"math/rand/v2": {"Int": "RandInt", "IntN": "RandIntn", "Int32": "RandInt31", "Int32N": "RandInt31n", "Int64": "RandInt63", "Int64N": "RandInt63n",
		"Uint32": "RandUint32", "Uint64": "RandUint64", "Float64": "RandFloat64", "Float32": "RandFloat32", "UintN": "RandUintn", "Uint64N": "RandUint64n",
		"Perm": "", "Shuffle": "", "New": "", "N": ""},
}

// envSeam redirects environment calls to simrt (see the package comment).
func (rw *rewriter) envSeam(f *ast.File) bool {
	local := map[string]string{} // local package name -> import path
	for _, imp := range f.Imports {
		path, _ := strconv.Unquote(imp.Path.Value)
		if envFuncs[path] == nil {
			continue
		}
		name := path[strings.LastIndex(path, "/")+1:]
		if path == "math/rand/v2" {
			name = "rand"
		}
		if imp.Name != nil {
			name = imp.Name.Name
		}
		if name == "_" || name == "." {
			continue
		}
		local[name] = path
	}
	if len(local) == 0 {
		return false
	}
	used := map[string]bool{}
	changed := false
	ast.Inspect(f, func(n ast.Node) bool {
		sel, ok := n.(*ast.SelectorExpr)
		if !ok {
			return true
		}
		id, ok := sel.X.(*ast.Ident)
		if !ok || id.Obj != nil {
			return true
		}
		path, ok := local[id.Name]
		if !ok {
			return true
		}
		repl, known := envFuncs[path][sel.Sel.Name]
		switch {
		case known && repl != "":
			envSites[path+"."+sel.Sel.Name]++
			sel.X = ast.NewIdent("simrt")
			sel.Sel = ast.NewIdent(repl)
			changed = true
			return false
		case known:
			envLeft[path+"."+sel.Sel.Name]++
		}
		used[id.Name] = true
		return true
	})
	if !changed {
		return false
	}
	// an import all of whose uses were redirected would no longer compile
	for name, path := range local {
		if used[name] {
			continue
		}
		for _, imp := range f.Imports {
			if p, _ := strconv.Unquote(imp.Path.Value); p == path {
				imp.Name = ast.NewIdent("_")
			}
		}
	}
	return true
}

func recvName(e ast.Expr) string {
	switch t := e.(type) {
	case *ast.StarExpr:
		return recvName(t.X)
	case *ast.Ident:
		return t.Name
	case *ast.IndexExpr:
		return recvName(t.X)
	}
	return "?"
}

func addImport(f *ast.File) {
	spec := &ast.ImportSpec{
		Name: ast.NewIdent("simrt"),
		Path: &ast.BasicLit{Kind: token.STRING, Value: strconv.Quote("verif/simrt")},
	}
	decl := &ast.GenDecl{Tok: token.IMPORT, Specs: []ast.Spec{spec}}
	f.Decls = append([]ast.Decl{decl}, f.Decls...)
}

func (rw *rewriter) yieldStmt(pos token.Pos, kind string) ast.Stmt {
	id := nextID
	nextID++
	p := rw.fset.Position(pos)
	sites = append(sites, site{ID: id, File: rw.rel, Line: p.Line, Kind: kind, Func: rw.fn})
	rw.changed = true
	return callStmt("Yield", strconv.Itoa(id))
}

func callStmt(fn, arg string) ast.Stmt {
	return &ast.ExprStmt{X: callExpr(fn, arg)}
}

func callExpr(fn, arg string) *ast.CallExpr {
	return &ast.CallExpr{
		Fun:  &ast.SelectorExpr{X: ast.NewIdent("simrt"), Sel: ast.NewIdent(fn)},
		Args: []ast.Expr{&ast.BasicLit{Kind: token.INT, Value: arg}},
	}
}

// block instruments a block whose entry is a yield site of the given kind
// ("" = not an entry site).
func (rw *rewriter) block(b *ast.BlockStmt, entryKind string) {
	if b == nil {
		return
	}
	b.List = rw.stmts(b.List, entryKind, b.Lbrace)
}

func (rw *rewriter) stmts(list []ast.Stmt, entryKind string, pos token.Pos) []ast.Stmt {
	var out []ast.Stmt
	yields := *mode == "steps" || *mode == "dense"
	if yields && entryKind != "" {
		out = append(out, rw.yieldStmt(pos, entryKind))
	}
	for i, s := range list {
		syncOp := yields && touchesSync(s)
		if *mode == "dense" && !(i == 0 && entryKind != "") {
			kind := "stmt"
			if syncOp {
				kind = "sync-pre"
			}
			out = append(out, rw.yieldStmt(s.Pos(), kind))
		} else if syncOp {
			out = append(out, rw.yieldStmt(s.Pos(), "sync-pre"))
		}
		out = append(out, rw.stmt(s)...)
		if syncOp && !terminates(s) {
			out = append(out, rw.yieldStmt(s.End(), "sync-post"))
		}
	}
	return out
}

// syncMethods: method names of sync.Mutex/RWMutex/Once/Pool/Map/WaitGroup/Cond
// and sync/atomic values.  A statement that calls one of them (or a function
// of package atomic) is a synchronisation operation: defects that have no
// data race in the detector's sense (torn multi-word publication through
// atomics, check-then-act across two critical sections, a pooled object
// released twice) live exactly between such operations, so the scheduler gets
// a yield site right before and right after each and preempts there with
// preference.
var syncMethods = map[string]bool{
	"Load": true, "Store": true, "Swap": true, "CompareAndSwap": true, "Add": true, "And": true, "Or": true,
	"Lock": true, "Unlock": true, "RLock": true, "RUnlock": true, "TryLock": true, "TryRLock": true,
	"Get": true, "Put": true, "Do": true,
	"LoadOrStore": true, "LoadAndDelete": true, "Delete": true, "Range": true, "CompareAndDelete": true,
	"Wait": true, "Done": true, "Signal": true, "Broadcast": true,
}

// touchesSync reports whether the statement itself (for compound statements:
// its header, not its body) performs a synchronisation operation.
func touchesSync(s ast.Stmt) bool {
	found := false
	visit := func(n ast.Node) {
		if n == nil || isNilNode(n) {
			return
		}
		ast.Inspect(n, func(n ast.Node) bool {
			switch x := n.(type) {
			case *ast.FuncLit:
				return false
			case *ast.CallExpr:
				if sel, ok := x.Fun.(*ast.SelectorExpr); ok {
					if id, ok := sel.X.(*ast.Ident); ok && id.Name == "atomic" {
						found = true
					}
					if syncMethods[sel.Sel.Name] {
						// x.Get(...)/x.Add(...) with arguments that are not sync calls are
						// common names; accept the false positives (an extra yield site
						// changes nothing but the schedule space)
						found = true
					}
				}
			}
			return !found
		})
	}
	switch s := s.(type) {
	case *ast.ExprStmt, *ast.AssignStmt, *ast.ReturnStmt, *ast.IncDecStmt, *ast.DeclStmt, *ast.SendStmt:
		visit(s)
	case *ast.DeferStmt:
		// the call runs at function exit, not here
	case *ast.IfStmt:
		visit(s.Init)
		visit(s.Cond)
	case *ast.SwitchStmt:
		visit(s.Init)
		visit(s.Tag)
	case *ast.ForStmt:
		visit(s.Init)
	case *ast.RangeStmt:
		visit(s.X)
	case *ast.LabeledStmt:
		return false
	}
	return found
}

// terminates reports whether control never reaches the statement after s.
func terminates(s ast.Stmt) bool {
	switch s := s.(type) {
	case *ast.ReturnStmt:
		return true
	case *ast.BranchStmt:
		return true
	case *ast.ExprStmt:
		if call, ok := s.X.(*ast.CallExpr); ok {
			if id, ok := call.Fun.(*ast.Ident); ok && id.Name == "panic" {
				return true
			}
		}
	}
	return false
}

// stmt instruments s and returns the statements replacing it.
func (rw *rewriter) stmt(s ast.Stmt) []ast.Stmt {
	switch s := s.(type) {
	case *ast.BlockStmt:
		rw.block(s, "")
	case *ast.LabeledStmt:
		inner := rw.stmt(s.Stmt)
		// keep the label on the original statement; extra statements
		// (lock brackets) follow it
		s.Stmt = inner[0]
		rw.exprs(s)
		return append([]ast.Stmt{s}, inner[1:]...)
	case *ast.IfStmt:
		rw.exprs(s.Init)
		rw.expr(s.Cond)
		rw.block(s.Body, "")
		if s.Else != nil {
			r := rw.stmt(s.Else)
			s.Else = r[0]
		}
	case *ast.ForStmt:
		rw.exprs(s.Init)
		rw.expr(s.Cond)
		rw.exprs(s.Post)
		rw.block(s.Body, "for")
	case *ast.RangeStmt:
		rw.expr(s.X)
		rw.block(s.Body, "range")
	case *ast.SwitchStmt:
		rw.exprs(s.Init)
		rw.expr(s.Tag)
		rw.clauses(s.Body)
	case *ast.TypeSwitchStmt:
		rw.exprs(s.Init)
		rw.exprs(s.Assign)
		rw.clauses(s.Body)
	case *ast.SelectStmt:
		rw.clauses(s.Body)
	case *ast.DeclStmt:
		if repl := rw.knobDecl(s); repl != nil {
			return repl
		}
		rw.exprs(s)
	case *ast.ExprStmt:
		rw.exprs(s)
		if call, ok := s.X.(*ast.CallExpr); ok {
			switch lockKind(call) {
			case "lock":
				rw.changed = true
				return []ast.Stmt{s, callStmt("NoYield", "1")}
			case "unlock":
				rw.changed = true
				return []ast.Stmt{s, callStmt("NoYield", "-1")}
			case "once":
				rw.changed = true
				return []ast.Stmt{callStmt("NoYield", "1"), s, callStmt("NoYield", "-1")}
			}
		}
	case *ast.GoStmt:
		// the library starts a goroutine of its own: from here on the hand-off
		// scheduler must not park anybody (a yield executed by that goroutine
		// would be taken for the running task's), see simrt.Foreign
		rw.expr(s.Call)
		rw.changed = true
		goStmts++
		return []ast.Stmt{callStmt("Foreign", "1"), s}
	case *ast.DeferStmt:
		rw.expr(s.Call)
		if lockKind(s.Call) == "unlock" {
			// defer mu.Unlock()  =>  defer func() { mu.Unlock(); simrt.NoYield(-1) }()
			rw.changed = true
			inner := &ast.ExprStmt{X: s.Call}
			s.Call = &ast.CallExpr{Fun: &ast.FuncLit{
				Type: &ast.FuncType{Params: &ast.FieldList{}},
				Body: &ast.BlockStmt{List: []ast.Stmt{inner, callStmt("NoYield", "-1")}},
			}}
		}
	default:
		rw.exprs(s)
	}
	return []ast.Stmt{s}
}

func (rw *rewriter) clauses(body *ast.BlockStmt) {
	for _, c := range body.List {
		switch c := c.(type) {
		case *ast.CaseClause:
			for _, e := range c.List {
				rw.expr(e)
			}
			c.Body = rw.stmts(c.Body, "", c.Colon)
		case *ast.CommClause:
			c.Body = rw.stmts(c.Body, "", c.Colon)
		}
	}
}

// exprs finds function literals in the expressions of a simple statement.
func (rw *rewriter) exprs(n ast.Node) {
	if n == nil || isNilNode(n) {
		return
	}
	switch n := n.(type) {
	case *ast.LabeledStmt:
		return
	default:
		rw.inspect(n)
	}
}

func (rw *rewriter) expr(e ast.Expr) {
	if e == nil {
		return
	}
	rw.inspect(e)
}

func isNilNode(n ast.Node) bool {
	switch v := n.(type) {
	case ast.Stmt:
		return v == nil
	case ast.Expr:
		return v == nil
	}
	return false
}

func (rw *rewriter) inspect(n ast.Node) {
	ast.Inspect(n, func(n ast.Node) bool {
		if fl, ok := n.(*ast.FuncLit); ok {
			saved := rw.fn
			rw.fn = saved + ".func"
			rw.block(fl.Body, "funclit")
			rw.fn = saved
			return false
		}
		return true
	})
}

func lockKind(call *ast.CallExpr) string {
	sel, ok := call.Fun.(*ast.SelectorExpr)
	if !ok {
		return ""
	}
	switch sel.Sel.Name {
	case "Lock", "RLock":
		if len(call.Args) == 0 {
			return "lock"
		}
	case "Unlock", "RUnlock":
		if len(call.Args) == 0 {
			return "unlock"
		}
	case "Do":
		if len(call.Args) == 1 {
			if _, ok := call.Args[0].(*ast.FuncLit); ok {
				return "once"
			}
			if _, ok := call.Args[0].(*ast.Ident); ok {
				return "once"
			}
		}
	}
	return ""
}

// knobDecl turns `const ( chunkSize = X; maxBlockSize = Y )` inside a
// function into `var ( chunkSize = simrt.Knob("chunkSize", X); ... )`.
func (rw *rewriter) knobDecl(s *ast.DeclStmt) []ast.Stmt {
	gd, ok := s.Decl.(*ast.GenDecl)
	if !ok || gd.Tok != token.CONST || *noKnob {
		return nil
	}
	all := true
	for _, sp := range gd.Specs {
		vs := sp.(*ast.ValueSpec)
		if vs.Type != nil || len(vs.Names) != 1 || len(vs.Values) != 1 || !knobNames[vs.Names[0].Name] {
			all = false
		}
	}
	if !all || len(gd.Specs) == 0 {
		return nil
	}
	gd.Tok = token.VAR
	for _, sp := range gd.Specs {
		vs := sp.(*ast.ValueSpec)
		name := vs.Names[0].Name
		knobFound = append(knobFound, name)
		vs.Values[0] = &ast.CallExpr{
			Fun:  &ast.SelectorExpr{X: ast.NewIdent("simrt"), Sel: ast.NewIdent("Knob")},
			Args: []ast.Expr{&ast.BasicLit{Kind: token.STRING, Value: strconv.Quote(name)}, vs.Values[0]},
		}
	}
	rw.changed = true
	out := []ast.Stmt{s}
	for _, sp := range gd.Specs {
		// keep the build green if a later change stops using one of them
		out = append(out, &ast.AssignStmt{
			Lhs: []ast.Expr{ast.NewIdent("_")},
			Tok: token.ASSIGN,
			Rhs: []ast.Expr{ast.NewIdent(sp.(*ast.ValueSpec).Names[0].Name)},
		})
	}
	return out
}
