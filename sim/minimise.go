package main

import (
	"time"

	"verif/simrt"
)

// minimise shrinks a failing scenario while test (same property + same check
// id still fails) holds.  It works on the explicit scenario, never on a seed.
func minimise(s *Scenario, test func(*Scenario) bool, maxTests int, deadline time.Time) (*Scenario, int) {
	cur := s.clone()
	tests := 0
	try := func(c *Scenario) bool {
		if tests >= maxTests || time.Now().After(deadline) {
			tests = maxTests // every loop below ends on this
			return false
		}
		tests++
		if test(c) {
			cur = c
			return true
		}
		return false
	}
	adjust := func(c *Scenario, a, b int) {
		// bytes [a,b) of the document were removed
		if c.Reader != nil && c.Reader.Fault.Kind != "none" && c.Reader.Fault.Kind != "" {
			k := c.Reader.Fault.At
			switch {
			case k >= b:
				k -= b - a
			case k > a:
				k = a
			}
			c.Reader.Fault.At = k
		}
	}
	// the simulated environment: none, then a frozen clock / real CPU count
	if cur.Env != nil {
		c := cur.clone()
		c.Env = nil
		if !try(c) {
			for _, f := range []func(e *EnvScn){
				func(e *EnvScn) { e.ClockPerYield = 0 },
				func(e *EnvScn) { e.ClockJump = 0 },
				func(e *EnvScn) { e.CPUs = 0 },
				func(e *EnvScn) { e.RandSeed = 0 },
			} {
				c := cur.clone()
				f(c.Env)
				if c.digest() != cur.digest() {
					try(c)
				}
			}
		}
	}
	// 0. the recorded history: drop prelude scenarios (chunked)
	if len(cur.Prelude) > 0 {
		c := cur.clone()
		c.Prelude = nil
		if !try(c) {
			// most state leaks need only the last few earlier evaluations
			for _, k := range []int{1, 2, 3, 4, 6, 8, 16, 32} {
				if k >= len(cur.Prelude) || tests >= maxTests {
					break
				}
				c := cur.clone()
				c.Prelude = c.Prelude[len(c.Prelude)-k:]
				if try(c) {
					break
				}
			}
			for chunk := (len(cur.Prelude) + 1) / 2; chunk >= 1 && tests < maxTests; chunk /= 2 {
				for a := 0; a < len(cur.Prelude) && tests < maxTests; {
					b := a + chunk
					if b > len(cur.Prelude) {
						b = len(cur.Prelude)
					}
					c := cur.clone()
					c.Prelude = append(c.Prelude[:a], c.Prelude[b:]...)
					if !try(c) {
						a += chunk
					}
				}
			}
		}
	}
	// 1. ddmin on document bytes
	shrinkDoc := func(get func(*Scenario) []byte, set func(*Scenario, []byte), adj bool) {
		chunk := len(get(cur)) / 2
		if chunk < 1 {
			chunk = 1
		}
		for tests < maxTests {
			removed := false
			for a := 0; a < len(get(cur)) && tests < maxTests; {
				d := get(cur)
				b := a + chunk
				if b > len(d) {
					b = len(d)
				}
				c := cur.clone()
				set(c, append(append([]byte(nil), d[:a]...), d[b:]...))
				if adj {
					adjust(c, a, b)
				}
				if try(c) {
					removed = true
				} else {
					a += chunk
				}
			}
			if chunk > 1 {
				chunk /= 2
			} else if !removed {
				break
			}
		}
	}
	if len(cur.Docs) > 0 {
		for di := range cur.Docs {
			di := di
			shrinkDoc(func(c *Scenario) []byte { return c.Docs[di] }, func(c *Scenario, b []byte) {
				c.Docs[di] = b
				if di == 0 {
					c.Doc = b
				}
			}, false)
		}
	} else {
		shrinkDoc(func(c *Scenario) []byte { return c.Doc }, func(c *Scenario, b []byte) { c.Doc = b }, true)
	}
	// 2. read schedule
	simplifyReader := func(get func(*Scenario) *ReaderScn) {
		if get(cur) == nil {
			return
		}
		c := cur.clone()
		get(c).Ops = nil
		get(c).Family = "whole"
		if !try(c) {
			c = cur.clone()
			r := get(c)
			r.Ops = nil
			for i := 0; i < len(c.Doc)+1 && i < 4096; i++ {
				r.Ops = append(r.Ops, 1)
			}
			r.Family = "bytes1"
			try(c)
		}
		// drop empty reads
		c = cur.clone()
		r := get(c)
		var ops []int
		for _, o := range r.Ops {
			if o != 0 {
				ops = append(ops, o)
			}
		}
		if len(ops) != len(r.Ops) {
			r.Ops = ops
			try(c)
		}
		// merge adjacent reads
		for i := 0; i+1 < len(get(cur).Ops) && tests < maxTests; {
			c := cur.clone()
			r := get(c)
			if r.Ops[i] == 0 || r.Ops[i+1] == 0 {
				i++
				continue
			}
			r.Ops[i] += r.Ops[i+1]
			r.Ops = append(r.Ops[:i+1], r.Ops[i+2:]...)
			if !try(c) {
				i++
			}
		}
		// trailing ops beyond the data
		for len(get(cur).Ops) > 0 && tests < maxTests {
			c := cur.clone()
			r := get(c)
			r.Ops = r.Ops[:len(r.Ops)-1]
			if !try(c) {
				break
			}
		}
		for _, f := range []func(r *ReaderScn){
			func(r *ReaderScn) { r.ExtraCalls = 1 },
			func(r *ReaderScn) { r.Scribble = "" },
			func(r *ReaderScn) { r.Rich = false },
			func(r *ReaderScn) { r.Consumer = "" },
			func(r *ReaderScn) { r.Companion = nil },
			func(r *ReaderScn) {
				if r.Companion != nil {
					c := *r.Companion
					c.Every, c.Steps = 1, 1
					r.Companion = &c
				}
			},
			func(r *ReaderScn) { r.Std = "" },
			func(r *ReaderScn) { r.GC, r.GCEvery = "", 0 },
			func(r *ReaderScn) { r.Terminal = "separate" },
			func(r *ReaderScn) { r.Fault.WithData = false },
			func(r *ReaderScn) {
				if r.Fault.Kind == "error" {
					r.Fault.Err = "sentinel"
				}
			},
			func(r *ReaderScn) {
				if r.Fault.Kind == "early-eof" {
					r.Fault = FaultScn{Kind: "none"}
				}
			},
		} {
			c := cur.clone()
			f(get(c))
			if c.digest() != cur.digest() {
				try(c)
			}
		}
		// lower the fault point
		for get(cur).Fault.Kind != "none" && get(cur).Fault.Kind != "" && get(cur).Fault.At > 0 && tests < maxTests {
			c := cur.clone()
			get(c).Fault.At--
			if !try(c) {
				break
			}
		}
	}
	simplifyReader(func(c *Scenario) *ReaderScn { return c.Reader })
	// 3. knobs
	if len(cur.Knobs) > 0 {
		c := cur.clone()
		c.Knobs = nil
		if !try(c) {
			for k := range cur.Knobs {
				c := cur.clone()
				delete(c.Knobs, k)
				try(c)
			}
		}
	}
	// 4. renderer configurations
	for len(cur.Renders) > 1 && tests < maxTests {
		dropped := false
		for i := range cur.Renders {
			c := cur.clone()
			c.Renders = append(c.Renders[:i], c.Renders[i+1:]...)
			if try(c) {
				dropped = true
				break
			}
		}
		if !dropped {
			break
		}
	}
	for i := range cur.Renders {
		c := cur.clone()
		c.Renders[i] = RenderScn{Filter: "nil"}
		try(c)
	}
	if cur.Writer != nil && cur.Property != "C20" {
		c := cur.clone()
		c.Writer = nil
		try(c)
	}
	// 5. walk
	simplifyWalk := func(get func(*Scenario) *WalkScn) {
		if get(cur) == nil {
			return
		}
		for _, f := range []func(w *WalkScn){
			func(w *WalkScn) { w.Reentrant, w.SameOpts = false, false },
			func(w *WalkScn) { w.SameOpts = false },
			func(w *WalkScn) { w.Warm = false },
			func(w *WalkScn) { w.Tree = "" },
			func(w *WalkScn) { w.View = "default" },
			func(w *WalkScn) { w.View = "virtual-root" },
			func(w *WalkScn) { w.PreNil = false },
			func(w *WalkScn) { w.PostNil = false },
			func(w *WalkScn) { w.Tape = "" },
			func(w *WalkScn) { w.Block = 0 },
			func(w *WalkScn) { w.RootPath = nil },
		} {
			c := cur.clone()
			f(get(c))
			if c.digest() != cur.digest() {
				try(c)
			}
		}
		// shorten the tape, then turn 0s into 1s
		for len(get(cur).Tape) > 0 && tests < maxTests {
			c := cur.clone()
			w := get(c)
			w.Tape = w.Tape[:len(w.Tape)-1]
			if !try(c) {
				break
			}
		}
		for i := 0; i < len(get(cur).Tape) && tests < maxTests; i++ {
			if get(cur).Tape[i] == '0' || get(cur).Tape[i] == 'P' {
				c := cur.clone()
				w := get(c)
				w.Tape = w.Tape[:i] + "1" + w.Tape[i+1:]
				try(c)
			}
		}
	}
	simplifyWalk(func(c *Scenario) *WalkScn { return c.Walk })
	// 6. tasks and context switches
	for len(cur.Tasks) > 2 && tests < maxTests {
		dropped := false
		for i := range cur.Tasks {
			c := cur.clone()
			c.Tasks = append(c.Tasks[:i], c.Tasks[i+1:]...)
			var sw []simrt.SwitchEntry
			for _, e := range c.Switches {
				switch {
				case e.Task == i:
					continue
				case e.Task > i:
					e.Task--
				}
				sw = append(sw, e)
			}
			c.Switches = sw
			if try(c) {
				dropped = true
				break
			}
		}
		if !dropped {
			break
		}
	}
	if len(cur.Switches) > 0 {
		// chunked removal of switch entries
		for chunk := (len(cur.Switches) + 1) / 2; chunk >= 1 && tests < maxTests; chunk /= 2 {
			for a := 0; a < len(cur.Switches) && tests < maxTests; {
				b := a + chunk
				if b > len(cur.Switches) {
					b = len(cur.Switches)
				}
				c := cur.clone()
				c.Switches = append(c.Switches[:a], c.Switches[b:]...)
				if !try(c) {
					a += chunk
				}
			}
		}
		// merge neighbouring quanta of the same task
		for i := 0; i+1 < len(cur.Switches) && tests < maxTests; {
			if cur.Switches[i].Task == cur.Switches[i+1].Task && cur.Switches[i].Site == 0 && cur.Switches[i+1].Site == 0 {
				c := cur.clone()
				c.Switches[i].Quantum += c.Switches[i+1].Quantum
				c.Switches = append(c.Switches[:i+1], c.Switches[i+2:]...)
				if try(c) {
					continue
				}
			}
			i++
		}
	}
	for ti := range cur.Tasks {
		ti := ti
		if cur.Tasks[ti].Reader != nil {
			simplifyReader(func(c *Scenario) *ReaderScn { return c.Tasks[ti].Reader })
		}
		if cur.Tasks[ti].Walk != nil {
			simplifyWalk(func(c *Scenario) *WalkScn { return c.Tasks[ti].Walk })
		}
		if cur.Tasks[ti].Writer != nil {
			c := cur.clone()
			c.Tasks[ti].Writer = nil
			try(c)
		}
	}
	return cur, tests
}
