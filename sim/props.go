package main

import (
	"bytes"
	"fmt"
	"runtime"
	"runtime/debug"
	"strings"
	"unicode/utf8"

	"verif/simrt"
	"zombiezen.com/go/commonmark"
)

// phaseDef describes one batch of runs of a property's check.
type phaseDef struct {
	Name    string
	Variant string // plain | knob | steps | race | dense
	Quick   int    // run indices in the quick tier
	Thor    int    // run indices in the thorough tier (per seed)
	Gen     func(r *Rng, i int) []*Scenario
}

func phasesFor(prop string) []phaseDef {
	switch prop {
	case "C01":
		return []phaseDef{
			{"stream", "plain", 120000, 1500000, func(r *Rng, i int) []*Scenario { return genStream(r, "C01", "stream", false, 0.30, 0.08) }},
			{"stream-knob", "knob", 120000, 1500000, func(r *Rng, i int) []*Scenario { return genStream(r, "C01", "stream-knob", true, 0.30, 0.08) }},
			{"memory", "plain", 60000, 600000, func(r *Rng, i int) []*Scenario {
				return []*Scenario{{Property: "C01", Phase: "memory", Doc: genDocMany(r, docMax(r), 0.01)}}
			}},
			{"large", "plain", 800, 16000, func(r *Rng, i int) []*Scenario { return genStreamLarge(r, "C01", "large", 0.2, 0.1) }},
			{"huge", "plain", 48, 480, func(r *Rng, i int) []*Scenario { return genStreamHuge(r, "C01", "huge", 0.2, 0.1) }},
			{"trunc-enum", "plain", 400, 12000, func(r *Rng, i int) []*Scenario { return genEnumK(r, "C01", "trunc-enum", "early-eof") }},
			{"part-enum", "plain", 1000, 20000, func(r *Rng, i int) []*Scenario { return genEnumPartitions(r, "C01", "part-enum") }},
		}
	case "C08":
		return []phaseDef{
			{"A", "plain", 100000, 1200000, func(r *Rng, i int) []*Scenario { return genStream(r, "C08", "A", false, 0, 0) }},
			{"A-knob", "knob", 100000, 1200000, func(r *Rng, i int) []*Scenario { return genStream(r, "C08", "A-knob", true, 0, 0) }},
			{"B", "plain", 100000, 1200000, func(r *Rng, i int) []*Scenario { return genStream(r, "C08", "B", false, 0.25, 0.75) }},
			{"B-knob", "knob", 100000, 1200000, func(r *Rng, i int) []*Scenario { return genStream(r, "C08", "B-knob", true, 0.25, 0.75) }},
			{"large", "plain", 1000, 16000, func(r *Rng, i int) []*Scenario { return genStreamLarge(r, "C08", "large", 0.15, 0.35) }},
			{"huge", "plain", 64, 640, func(r *Rng, i int) []*Scenario { return genStreamHuge(r, "C08", "huge", 0.15, 0.35) }},
			{"B-enum", "knob", 400, 16000, func(r *Rng, i int) []*Scenario { return genEnumK(r, "C08", "B-enum", "error") }},
			{"part-enum", "plain", 2500, 40000, func(r *Rng, i int) []*Scenario { return genEnumPartitions(r, "C08", "part-enum") }},
		}
	case "C04":
		return []phaseDef{
			{"healthy", "steps", 150000, 600000, func(r *Rng, i int) []*Scenario { return genTotality(r, "healthy") }},
			{"faulty", "steps", 80000, 600000, func(r *Rng, i int) []*Scenario { return genTotality(r, "faulty") }},
			{"limit", "steps", 20000, 200000, func(r *Rng, i int) []*Scenario { return genTotality(r, "limit") }},
			{"cut-enum", "steps", 400, 6000, func(r *Rng, i int) []*Scenario { return genTotalityEnum(r) }},
			// in-memory parsing has no block-size limit: documents of 1.0-2.4 MiB
			// with one root block ABOVE the streaming parser's 1 MiB limit (plain
			// build: a megabyte costs 10^7 yield steps on the counting build)
			{"memhuge", "plain", 32, 320, func(r *Rng, i int) []*Scenario { return genMemHuge(r) }},
		}
	case "C18":
		return []phaseDef{
			{"tapes", "plain", 400000, 8000000, func(r *Rng, i int) []*Scenario { return genWalk(r) }},
			{"single-enum", "plain", 1500, 20000, func(r *Rng, i int) []*Scenario { return genWalkEnum(r) }},
			{"wide", "plain", 480, 8000, func(r *Rng, i int) []*Scenario { return genWalkWide(r) }},
		}
	case "C19":
		return []phaseDef{
			{"race", "race", 16000, 250000, func(r *Rng, i int) []*Scenario { return genSched(r, "race") }},
			{"cold", "race", 2400, 40000, func(r *Rng, i int) []*Scenario { return genSched(r, "cold") }},
			{"dense", "dense", 0, 60000, func(r *Rng, i int) []*Scenario { return genSched(r, "dense") }},
			// the same scenarios WITHOUT the race detector: under -race sync.Pool
			// drops objects at random inside the Go runtime, so state that a
			// change pools is neither reliably shared nor replayable there; on
			// this build (one P, collections at fixed points) it is
			{"norace", "steps", 40000, 400000, func(r *Rng, i int) []*Scenario { return genSched(r, "norace") }},
		}
	case "C20":
		return []phaseDef{
			{"writer-enum", "plain", 3000, 50000, func(r *Rng, i int) []*Scenario { return genSink(r) }},
			{"interleaved", "steps", 6000, 100000, func(r *Rng, i int) []*Scenario { return genSinkInterleaved(r) }},
		}
	}
	return nil
}

func docMax(r *Rng) int {
	switch x := r.Intn(100); {
	case x < 70:
		return 512
	case x < 95:
		return 1500
	default:
		return 4096
	}
}

var tierThorough bool // set from the worker's -tier flag; only generators read it

var chunkKnobs = []int{1, 2, 3, 5, 8, 16, 64, 8192}

// deliveryPoints are the end offsets of the root blocks of a fault-free
// in-memory parse; schedules and faults are biased towards them.
func deliveryPoints(doc []byte) (pts []int, ranges [][2]int) {
	blocks, _, ok := safeParse(doc)
	if !ok {
		return nil, nil
	}
	for _, b := range blocks {
		pts = append(pts, int(b.EndOffset))
		ranges = append(ranges, [2]int{int(b.StartOffset), int(b.EndOffset)})
	}
	return
}

// genStream draws one streaming scenario.
func genStream(r *Rng, prop, phase string, knob bool, pEarly, pErr float64) []*Scenario {
	if r.Chance(0.012) {
		return genProcfs(r, prop, phase, knob)
	}
	doc := genDocMany(r, docMax(r), 0.01)
	s := &Scenario{Property: prop, Phase: phase, Doc: doc}
	pts, _ := deliveryPoints(doc)
	rs := &ReaderScn{Terminal: r.Pick([]string{"separate", "with-data"}), ExtraCalls: r.Range(1, 4)}
	rs.Fault.Kind = "none"
	limit := len(doc)
	switch x := r.U64() % 1000; {
	case float64(x) < pErr*1000:
		rs.Fault = FaultScn{Kind: "error", At: genFaultPoint(r, doc, pts), Err: r.Pick(faultErrKinds), WithData: r.Chance(0.5)}
		limit = rs.Fault.At
	case float64(x) < (pErr+pEarly)*1000:
		rs.Fault = FaultScn{Kind: "early-eof", At: genFaultPoint(r, doc, pts), WithData: r.Chance(0.5)}
		limit = rs.Fault.At
	}
	rs.Ops, rs.Family = genSchedule(r, doc, limit, pts)
	rs.Scribble = genScribble(r)
	rs.Rich = r.Chance(0.2)
	rs.Consumer = genConsumer(r)
	rs.Companion = genCompanion(r)
	if r.Chance(0.04) {
		rs.GC = r.Pick([]string{"mid", "end", "end", "both"})
		rs.GCEvery = r.Range(1, 4)
	}
	if r.Chance(0.06) {
		rs.Std = r.Pick(stdReaders)
		if rs.Fault.Kind == "error" {
			rs.Std = "bufio.Reader" // the only one that can carry an injected error
		}
	}
	s.Reader = rs
	if knob {
		s.Knobs = map[string]int{"chunkSize": chunkKnobs[r.Intn(len(chunkKnobs))]}
		switch x := r.Intn(10); {
		case x < 3:
			// a block-size limit that the whole (NUL-padded) document just fits
			// under: the arithmetic that decides how much may still be read is
			// exercised at its boundary, where with the real constant (1 MiB) no
			// workload document ever gets.  Everything below the limit must
			// still parse exactly like Parse.
			padded := len(doc) + 2*bytes.Count(doc, []byte{0})
			s.Knobs["maxBlockSize"] = padded + r.Range(3, 48)
		case x < 6:
			// ... or that only every run of adjacent ROOT BLOCKS fits under,
			// while the document as a whole (blank lines between blocks
			// included) may be many times larger
			if need, ok := tightLimit(doc[:limit]); ok {
				s.Knobs["maxBlockSize"] = need + r.Range(3, 48)
			}
		}
		if c, lim := rs.Companion, s.Knobs["maxBlockSize"]; c != nil && lim > 0 && len(c.Doc)+2*bytes.Count(c.Doc, []byte{0})+8 > lim {
			// the knobs are process-wide: the companion document must be inside
			// the quantifier (below the block-size limit) too
			rs.Companion = nil
		}
	}
	return []*Scenario{s}
}

var stdReaders = []string{"bytes.Buffer", "bytes.Buffer", "bytes.Reader", "strings.Reader", "bufio.Reader", "bufio.Reader", "section-advanced", "bytes.Reader-advanced", "os.File", "os.Pipe"}

// "os.File-grown" (a file that is empty when NewBlockParser is handed it and
// is filled before the first NextBlock) is still understood by the reader for
// old replay files but is NOT generated: nothing in C08 says that reading must
// be lazy, and a parser that drains an io.WriterTo reader at construction -
// legitimately - sees an empty stream there (false alarm on the benign patch
// newblockparser-writerto-fastpath, see DESIGN.md).

// genProcfs: a tiny NUL-free document served by a procfs file (regular file,
// Stat size 0, content delivered by reads): /proc/self/comm after the harness
// has set the process name to the document.
func genProcfs(r *Rng, prop, phase string, knob bool) []*Scenario {
	var doc []byte
	for n := r.Range(1, 8); n > 0; n-- {
		piece := r.Pick(tinyAlphabet)
		if strings.IndexByte(piece, 0) >= 0 || len(doc)+len(piece) > 15 {
			continue
		}
		doc = append(doc, piece...)
	}
	if len(doc) == 0 {
		doc = []byte("a")
	}
	doc = append(doc, '\n')
	s := &Scenario{Property: prop, Phase: phase, Doc: doc}
	rs := &ReaderScn{Terminal: "separate", ExtraCalls: r.Range(1, 4), Family: "whole", Std: "procfs-comm"}
	rs.Fault.Kind = "none"
	rs.Consumer = genConsumer(r)
	s.Reader = rs
	if knob {
		s.Knobs = map[string]int{"chunkSize": chunkKnobs[r.Intn(len(chunkKnobs))]}
	}
	return []*Scenario{s}
}

var scribbleKinds = []string{"garbage", "newline", "nul", "data"}

// genConsumer: three runs in ten complete every block between two NextBlock
// calls (two-pass recipe), one of them also renders and formats it at once.
func genConsumer(r *Rng) string {
	switch x := r.Intn(10); {
	case x < 2:
		return "eager"
	case x < 3:
		return "eager-use"
	case x < 4:
		return "reused-ip"
	}
	return ""
}

// genCompanion: one run in eight multiplexes a second parse with the main one.
func genCompanion(r *Rng) *CompanionScn {
	if !r.Chance(0.125) {
		return nil
	}
	c := &CompanionScn{Doc: genDoc(r, 512), Mode: "stream", Every: r.Range(1, 3), Steps: r.Range(1, 3), Chunk: []int{1, 3, 16, 64, 8192}[r.Intn(5)]}
	if r.Chance(0.25) {
		c.Mode = "parse"
	}
	if r.Chance(0.3) {
		c.Mode += "@read"
	}
	return c
}

// genScribble: one run in four uses a reader that treats the unfilled part of
// the slice it is handed as scratch space.
func genScribble(r *Rng) string {
	if r.Chance(0.25) {
		return r.Pick(scribbleKinds)
	}
	return ""
}

// genStreamLarge: documents of 10-90 KiB under the REAL constants (8 KiB
// chunks), so buffer growth, sliding and multi-chunk blocks are exercised
// without the knob seam.
func genStreamLarge(r *Rng, prop, phase string, pEarly, pErr float64) []*Scenario {
	loadCorpus()
	target := r.Range(10, 90) * 1024
	var doc []byte
	for len(doc) < target {
		var part []byte
		switch r.Intn(5) {
		case 0:
			part = compose(r, r.Range(1, 6))
		case 4:
			// ONE line longer than one, two or four read chunks (no line ending
			// inside), optionally inside a container or a fenced code block
			n := []int{8100, 8192, 8300, 16500, 33000}[r.Intn(5)] + r.Range(-3, 3)
			part = append(part, r.Pick([]string{"", "", "> ", "- ", "    ", "# ", "[l]: /u '"})...)
			unit := inlineText(r)
			if len(unit) == 0 {
				unit = "x "
			}
			for len(part) < n {
				part = append(part, unit...)
				part = append(part, ' ')
			}
			part = append(part, '\n')
		case 1:
			// one very long block (paragraph or code) spanning several chunks
			line := inlineText(r)
			n := r.Range(50, 600)
			for i := 0; i < n; i++ {
				part = append(part, line...)
				part = append(part, '\n')
			}
		default:
			part = corpus[r.Intn(len(corpus))].Data
		}
		doc = append(doc, part...)
		if r.Chance(0.7) {
			doc = append(doc, '\n')
		}
	}
	if r.Chance(0.3) {
		doc = lineEndings(r, doc)
	}
	if r.Chance(0.2) {
		for i := 0; i < 3; i++ {
			doc = insertAt(doc, r.Intn(len(doc)+1), []byte{0, 0})
		}
	}
	s := &Scenario{Property: prop, Phase: phase, Doc: doc}
	rs := &ReaderScn{Terminal: r.Pick([]string{"separate", "with-data"}), ExtraCalls: r.Range(1, 3)}
	rs.Fault.Kind = "none"
	limit := len(doc)
	switch x := r.U64() % 1000; {
	case float64(x) < pErr*1000:
		rs.Fault = FaultScn{Kind: "error", At: r.Intn(len(doc) + 1), Err: r.Pick(faultErrKinds), WithData: r.Chance(0.5)}
		limit = rs.Fault.At
	case float64(x) < (pErr+pEarly)*1000:
		rs.Fault = FaultScn{Kind: "early-eof", At: r.Intn(len(doc) + 1), WithData: r.Chance(0.5)}
		limit = rs.Fault.At
	}
	switch r.Intn(5) {
	case 0:
		rs.Family = "whole"
	case 1:
		rs.Family = "uniform-large"
		m := []int{100, 1000, 5000, 8192, 20000}[r.Intn(5)]
		for left := limit; left > 0; {
			n := r.Range(1, m)
			rs.Ops = append(rs.Ops, n)
			left -= n
		}
	case 2:
		rs.Family = "chunk-aligned"
		for left := limit; left > 0; {
			n := 8192 + r.Range(-2, 2)
			rs.Ops = append(rs.Ops, n)
			left -= n
		}
	case 3:
		rs.Family = "geometric"
		for left := limit; left > 0; {
			n := 1 << uint(r.Intn(15))
			n = r.Range((n+1)/2, n)
			rs.Ops = append(rs.Ops, n)
			left -= n
		}
	default:
		rs.Family = "boundary"
		crlf, nul, rn, blank := cutPoints(doc[:limit], nil)
		var cuts []int
		for _, ps := range [][]int{crlf, nul, rn, blank} {
			for _, x := range ps {
				if r.Chance(0.05) {
					cuts = append(cuts, x)
				}
			}
		}
		rs.Ops = cutsToOps(cuts, limit)
	}
	rs.Scribble = genScribble(r)
	rs.Consumer = genConsumer(r)
	s.Reader = rs
	return []*Scenario{s}
}

// genEnumK: one document and schedule, EVERY cut/fault point k in [0,len].
func genEnumK(r *Rng, prop, phase, kind string) []*Scenario {
	doc := genDoc(r, 256)
	pts, _ := deliveryPoints(doc)
	var out []*Scenario
	fams := []string{"bytes1", "whole"}
	var sampled []int
	if prop == "C08" {
		sampled, _ = genSchedule(r, doc, len(doc), pts)
		fams = append(fams, "sampled")
	}
	chunk := 0
	if phase == "B-enum" && r.Chance(0.5) {
		chunk = chunkKnobs[r.Intn(len(chunkKnobs))]
	}
	for k := 0; k <= len(doc); k++ {
		fam := fams[(k+r.Intn(len(fams)))%len(fams)]
		if prop == "C01" {
			fam = fams[k%2]
		}
		rs := &ReaderScn{Terminal: []string{"separate", "with-data"}[k%2], ExtraCalls: 1 + k%3, Family: fam}
		rs.Fault = FaultScn{Kind: kind, At: k, WithData: (k/2)%2 == 0}
		if k%3 == 1 {
			rs.Scribble = scribbleKinds[(k/3)%len(scribbleKinds)]
		}
		rs.Rich = k%4 == 2
		if k%5 == 3 {
			rs.Consumer = []string{"eager", "eager-use"}[(k/5)%2]
		}
		if kind == "error" {
			rs.Fault.Err = faultErrKinds[(k+len(doc))%len(faultErrKinds)]
		}
		switch fam {
		case "bytes1":
			for j := 0; j < k; j++ {
				rs.Ops = append(rs.Ops, 1)
			}
		case "sampled":
			rs.Ops = sampled
		}
		s := &Scenario{Property: prop, Phase: phase, Doc: doc, Reader: rs}
		if chunk > 0 {
			s.Knobs = map[string]int{"chunkSize": chunk}
		}
		out = append(out, s)
		if prop == "C01" {
			// both canonical schedules at every truncation point
			rs2 := *rs
			rs2.Family = fams[(k+1)%2]
			rs2.Ops = nil
			if rs2.Family == "bytes1" {
				for j := 0; j < k; j++ {
					rs2.Ops = append(rs2.Ops, 1)
				}
			}
			out = append(out, &Scenario{Property: prop, Phase: phase, Doc: doc, Reader: &rs2})
		}
	}
	return out
}

// tinyAlphabet: every byte class the block parser, the line splitter and the
// NUL padding distinguish, plus the openers of multi-line constructs.
var tinyAlphabet = []string{"\n", "\n", "\r", "\r", "\r\n", "\x00", "\x00", " ", " ", "\t", "a", "b", "-", ">", "#", "`", "~", "[", "]", ":", "(", ")", "<", "*", "_", "=", "1", ".", "\\", "\xc3\xa9", "\xe2\x82\xac", "\xff", "\x0c", "[a]: /u\n", "- ", "> ", "```\n", "    "}

// genEnumPartitions: one tiny document (<= 11 bytes) and EVERY partition of it
// into reads (2^(n-1) of them), alternating the terminal style; for a sample
// of the partitions additionally an empty read before every data read.
func genEnumPartitions(r *Rng, prop, phase string) []*Scenario {
	var doc []byte
	if r.Chance(0.3) {
		loadCorpus()
		d := corpus[r.Intn(len(corpus))].Data
		if len(d) > 0 {
			at := r.Intn(len(d))
			doc = append(doc, d[at:minInt(len(d), at+r.Range(4, 11))]...)
			if r.Chance(0.5) {
				doc = lineEndings(r, doc)
			}
		}
	} else {
		for n := r.Range(3, 9); n > 0 && len(doc) < 11; n-- {
			doc = append(doc, r.Pick(tinyAlphabet)...)
		}
	}
	if len(doc) > 11 {
		doc = doc[:11]
	}
	n := len(doc)
	var out []*Scenario
	if n == 0 {
		return out
	}
	for mask := 0; mask < 1<<uint(n-1); mask++ {
		var ops []int
		prev := 0
		for i := 1; i < n; i++ {
			if mask&(1<<uint(i-1)) != 0 {
				ops = append(ops, i-prev)
				prev = i
			}
		}
		ops = append(ops, n-prev)
		rs := &ReaderScn{Ops: ops, Terminal: []string{"separate", "with-data"}[(mask^mask>>3)&1], ExtraCalls: 1 + mask%2, Family: "partition"}
		rs.Fault.Kind = "none"
		if mask%5 == 2 {
			var withEmpty []int
			for _, o := range ops {
				withEmpty = append(withEmpty, 0, o)
			}
			rs.Ops = withEmpty
		}
		if mask%7 == 3 {
			rs.Scribble = scribbleKinds[(mask/7)%len(scribbleKinds)]
		}
		out = append(out, &Scenario{Property: prop, Phase: phase, Doc: doc, Reader: rs})
	}
	return out
}

// ---- C04 -------------------------------------------------------------------

func genWalkScn(r *Rng, nblocks int) *WalkScn {
	ws := &WalkScn{View: r.Pick([]string{"default", "default", "virtual-root", "virtual-root", "reversed", "filtered", "count-only", "child-only", "virtual-mixed", "grafted", "grouped"})}
	switch x := r.Intn(100); {
	case x < 12:
		ws.Tree = "prewalked"
	case x < 18:
		ws.Tree = "unparsed"
	}
	ws.Block = r.Intn(nblocks + 1)
	ws.HideSeed = r.U64()
	ws.PreNil = r.Chance(0.08)
	ws.PostNil = !ws.PreNil && r.Chance(0.08)
	ws.Reentrant = r.Chance(0.15)
	ws.SameOpts = ws.Reentrant && r.Chance(0.5)
	ws.Warm = r.Chance(0.3)
	ws.GC = r.Chance(0.03)
	n := r.Range(0, 120)
	p0 := []float64{0, 0.02, 0.1, 0.3, 0.5}[r.Intn(5)]
	var sb strings.Builder
	for i := 0; i < n; i++ {
		if r.Chance(p0) {
			sb.WriteByte('0')
		} else {
			sb.WriteByte('1')
		}
	}
	ws.Tape = sb.String()
	if n > 0 && r.Chance(0.06) {
		// the callback at one position leaves Walk by panicking
		at := r.Intn(n)
		ws.Tape = ws.Tape[:at] + "P" + ws.Tape[at+1:]
	}
	if r.Chance(0.2) {
		for i, d := 0, r.Range(1, 4); i < d; i++ {
			ws.RootPath = append(ws.RootPath, r.Intn(6))
		}
	}
	return ws
}

func genTotality(r *Rng, phase string) []*Scenario {
	maxLen := 512
	if r.Chance(0.2) {
		maxLen = 2048
	}
	doc := genDocMany(r, maxLen, 0.01)
	// the stream ends at an arbitrary byte: cut the document there
	if r.Chance(0.5) && len(doc) > 0 {
		pts, _ := deliveryPoints(doc)
		doc = doc[:genFaultPoint(r, doc, pts)]
	}
	s := &Scenario{Property: "C04", Phase: phase, Doc: doc}
	rs := &ReaderScn{Terminal: r.Pick([]string{"separate", "with-data"}), ExtraCalls: r.Range(1, 3)}
	rs.Fault.Kind = "none"
	rs.Ops, rs.Family = genSchedule(r, doc, len(doc), nil)
	rs.Scribble = genScribble(r)
	s.Reader = rs
	all := allRenderScns(r.U64())
	if tierThorough && phase == "healthy" {
		// thorough: the whole SoftBreakBehavior x IgnoreRaw x FilterTag grid on every document
		s.Renders = all
	} else {
		for i := 0; i < 6; i++ {
			s.Renders = append(s.Renders, all[r.Intn(len(all))])
		}
	}
	if r.Chance(0.08) && len(s.Renders) > 0 {
		// a SoftBreakBehavior outside the named constants
		c := s.Renders[r.Intn(len(s.Renders))]
		c.SoftBreak = oddSoftBreaks[r.Intn(len(oddSoftBreaks))]
		s.Renders = append(s.Renders, c)
	}
	s.Walk = genWalkScn(r, 8)
	switch phase {
	case "healthy":
		if r.Chance(0.5) {
			s.Knobs = map[string]int{"chunkSize": chunkKnobs[r.Intn(len(chunkKnobs))]}
			if r.Chance(0.4) {
				// every root block fits under the limit (the document as a whole
				// need not): still a healthy run, only io.EOF may be reported
				if need, ok := tightLimit(doc); ok {
					s.Knobs["maxBlockSize"] = need + r.Range(3, 48)
				}
			}
		}
	case "faulty":
		if r.Chance(0.7) {
			rs.Fault = FaultScn{Kind: "error", At: r.Intn(len(doc) + 1), Err: r.Pick(faultErrKinds), WithData: r.Chance(0.5)}
		}
		s.Writer = &WriterScn{Flavour: r.Pick(writerFlavours), FailAt: -1, ByteBudget: -1}
		if r.Chance(0.5) {
			s.Writer.FailAt = r.Intn(12)
			s.Writer.Partial = r.Intn(4)
			s.Writer.Full = r.Chance(0.25)
			s.Writer.Err = r.Pick(writerErrKinds)
		} else {
			s.Writer.ByteBudget = r.Intn(200)
		}
		if r.Chance(0.5) {
			s.Knobs = map[string]int{"chunkSize": chunkKnobs[r.Intn(len(chunkKnobs))]}
		}
	case "limit":
		s.Knobs = map[string]int{"chunkSize": chunkKnobs[r.Intn(len(chunkKnobs)-1)], "maxBlockSize": r.Range(64, 512)}
	}
	return []*Scenario{s}
}

// genTotalityEnum: one document (<= 512 bytes), the stream cut after EVERY
// byte k, all 30 renderer configurations.
func genTotalityEnum(r *Rng) []*Scenario {
	doc := genDoc(r, 512)
	all := allRenderScns(r.U64())
	var out []*Scenario
	for k := 0; k <= len(doc); k++ {
		rs := &ReaderScn{Terminal: []string{"separate", "with-data"}[k%2], ExtraCalls: 1, Family: "whole"}
		rs.Fault.Kind = "none"
		if k%3 == 1 {
			rs.Family = "bytes1"
			for j := 0; j < k; j++ {
				rs.Ops = append(rs.Ops, 1)
			}
		}
		s := &Scenario{Property: "C04", Phase: "healthy", Doc: doc[:k], Reader: rs}
		// all 30 configurations, spread over consecutive k (6 per cut)
		for c := 0; c < 6; c++ {
			s.Renders = append(s.Renders, all[(k*6+c)%len(all)])
		}
		if k == len(doc) {
			s.Renders = all
		}
		s.Walk = &WalkScn{View: "virtual-root", Tape: ""}
		out = append(out, s)
	}
	return out
}

// ---- C18 -------------------------------------------------------------------

func genWalk(r *Rng) []*Scenario {
	doc := genDoc(r, 512)
	blocks, _, ok := safeParse(doc)
	n := 1
	if ok {
		n = len(blocks)
	}
	return []*Scenario{{Property: "C18", Phase: "tapes", Doc: doc, Walk: genWalkScn(r, n)}}
}

// genWalkWide: nodes with very many children (just around powers of two up
// to 4096) — a virtual root over many blocks, a list of many items, a
// paragraph of many lines — so that traversal-stack growth and batching
// thresholds are crossed.
func genWalkWide(r *Rng) []*Scenario {
	base := []int{33, 64, 65, 128, 129, 256, 257, 512, 513, 1024, 1025, 1026, 2048, 2049, 4097}[r.Intn(15)]
	huge := r.Chance(0.07)
	if huge {
		// a node with tens of thousands of children (a generated list, a long
		// table of links): windows, batches or 16-bit counters a change
		// introduces for the traversal stack are crossed only then
		base = []int{8193, 16385, 32769, 16385, 32769}[r.Intn(5)]
		if tierThorough {
			base = []int{8193, 16385, 32769, 65537, 131073}[r.Intn(5)]
		}
	}
	n := base + r.Range(-1, 1)
	var sb strings.Builder
	kind := r.Intn(4)
	if huge && kind == 3 {
		kind = 1 // 100 000 emphasis runs in one line are the inline parser's problem, not Walk's
	}
	for i := 0; i < n; i++ {
		switch kind {
		case 0: // many root blocks
			sb.WriteString("p" + itoa(i%10) + "\n\n")
		case 1: // one list, many items
			sb.WriteString("- i\n")
		case 2: // one paragraph, many lines (2 inlines per line)
			sb.WriteString("l\n")
		default: // many inline siblings in one line
			sb.WriteString("*a* ")
		}
	}
	sb.WriteString("\n")
	ws := genWalkScn(r, 1)
	switch kind {
	case 0:
		ws.View = r.Pick([]string{"virtual-root", "reversed", "filtered"})
	default:
		ws.View = r.Pick([]string{"default", "virtual-root", "child-only", "count-only"})
		ws.Block = 0
	}
	ws.Reentrant = false
	if r.Chance(0.5) {
		ws.Tape = "" // a complete walk
	} else if r.Chance(0.5) {
		// the tape's prunes / aborts / panics start deep into the walk
		ws.TapeSkip = r.Intn(2*n + 1)
	}
	if huge {
		ws.Warm, ws.GC = false, false
		// the harness's filtered / reversed views re-enumerate a node's
		// children on every access: quadratic in the fan-out, the harness's
		// own cost, not Walk's
		if kind == 0 {
			ws.View = "virtual-root"
		}
	}
	return []*Scenario{{Property: "C18", Phase: "wide", Doc: []byte(sb.String()), Walk: ws}}
}

// genWalkEnum: every single-prune and every single-abort position of one tree.
func genWalkEnum(r *Rng) []*Scenario {
	doc := genDoc(r, 300)
	blocks, _, ok := safeParse(doc)
	if !ok {
		return nil
	}
	base := genWalkScn(r, len(blocks))
	base.Tape = ""
	base.PreNil, base.PostNil = false, false
	v := makeView(base, blocks)
	total := len(refWalk(v, base))
	if total > 400 {
		total = 400
	}
	var out []*Scenario
	for p := 0; p < total; p++ {
		ws := *base
		ws.Tape = strings.Repeat("1", p) + "0"
		out = append(out, &Scenario{Property: "C18", Phase: "single-enum", Doc: doc, Walk: &ws})
		if p%3 == 0 || tierThorough {
			// the callback at position p leaves Walk by panicking
			wp := *base
			wp.Tape = strings.Repeat("1", p) + "P"
			wp.Reentrant = false
			out = append(out, &Scenario{Property: "C18", Phase: "single-enum", Doc: doc, Walk: &wp})
		}
	}
	return out
}

// ---- C20 -------------------------------------------------------------------

// genSink: one document, the healthy run, EVERY failing write index j for
// both writer flavours, and sampled byte budgets.
func genSink(r *Rng) []*Scenario {
	doc := genDoc(r, 400)
	out := []*Scenario{{Property: "C20", Phase: "healthy", Doc: doc}}
	blocks, _, ok := safeParse(doc)
	if !ok {
		return out
	}
	hw, w := newSimWriter(nil)
	func() {
		defer func() { recover() }()
		_ = formatBlocks(w, blocks)
	}()
	W := hw.Calls
	for j := 0; j < W && j < 600; j++ {
		for _, fl := range writerFlavours {
			if fl == "richwriter" && !tierThorough && j%3 != 0 {
				continue // quick tier: every third failure point for the third flavour
			}
			out = append(out, &Scenario{Property: "C20", Phase: "fail-at", Doc: doc,
				Writer: &WriterScn{Flavour: fl, FailAt: j, ByteBudget: -1, Partial: (j % 3), GC: j%29 == 7, Err: writerErrKinds[(j*5+len(fl)+len(doc))%len(writerErrKinds)]}})
			if fl != "richwriter" && (tierThorough || (j+len(fl))%2 == 0) {
				// ... and the same failure point with the full count reported
				out = append(out, &Scenario{Property: "C20", Phase: "fail-at", Doc: doc,
					Writer: &WriterScn{Flavour: fl, FailAt: j, ByteBudget: -1, Full: true, Err: writerErrKinds[(j*3+len(fl)+len(doc))%len(writerErrKinds)]}})
			}
		}
	}
	for i := 0; i < 4 && len(hw.Buf) > 0; i++ {
		out = append(out, &Scenario{Property: "C20", Phase: "byte-budget", Doc: doc,
			Writer: &WriterScn{Flavour: r.Pick(writerFlavours), FailAt: -1, ByteBudget: r.Intn(len(hw.Buf)), Err: r.Pick(writerErrKinds)}})
	}
	return out
}

// genSinkInterleaved: 2-4 Format tasks (some with failing writers) over one
// shared tree under a PRNG-decided interleaving.
func genSinkInterleaved(r *Rng) []*Scenario {
	out := genSched(r, "interleaved")
	for _, s := range out {
		s.Property = "C20"
		for i := range s.Tasks {
			t := &s.Tasks[i]
			if t.Kind != "format" {
				*t = TaskScn{Kind: "format"}
				if r.Chance(0.25) {
					t.Writer = &WriterScn{Flavour: r.Pick(writerFlavours), FailAt: r.Intn(30), ByteBudget: -1, Full: r.Chance(0.25), Err: r.Pick(writerErrKinds)}
				}
			}
		}
	}
	return out
}

// ---- evaluation --------------------------------------------------------------

var evalSeq int // evaluations of this process so far (preludes included)

// retainedParse: root blocks of an earlier, finished parse of this process and
// what they looked like when that parse ended.  A caller may hold blocks for
// as long as it likes; a later, separate parse must not disturb them (a read
// buffer recycled through a pool when its parser reaches EOF would).
type retainedParse struct {
	blocks []*commonmark.RootBlock
	snaps  []string
	what   string
}

var retained []retainedParse
var sinceRetain int // stream evaluations since the retained parse was replaced

func checkRetained() string {
	for _, rp := range retained {
		for i, b := range rp.blocks {
			if now := snapRoot(b); now != rp.snaps[i] {
				return fmt.Sprintf("block %d of an EARLIER, finished parse (%s) changed while a later, separate parse ran: %s", i, rp.what, firstDiff(rp.snaps[i], now))
			}
		}
	}
	return ""
}

func retain(blocks []*commonmark.RootBlock, what string) {
	if len(blocks) == 0 {
		return
	}
	rp := retainedParse{blocks: blocks, what: what}
	for _, b := range blocks {
		rp.snaps = append(rp.snaps, snapRoot(b))
	}
	retained = append(retained, rp)
	if len(retained) > 1 {
		retained = retained[len(retained)-1:]
	}
}

// evaluate runs one scenario and updates the statistics.  It is a pure
// function of the scenario and the code under test.
// panicRaisedInLibrary: in the stack of a recovered panic, is the frame that
// raised it (the first one below runtime's panic machinery) library code?
func panicRaisedInLibrary(stack string) bool {
	lines := strings.Split(stack, "\n")
	seenPanic := false
	for _, l := range lines {
		if strings.HasPrefix(l, "\t") || l == "" || strings.HasPrefix(l, "goroutine ") {
			continue
		}
		if strings.HasPrefix(l, "panic(") {
			seenPanic = true
			continue
		}
		if !seenPanic || strings.HasPrefix(l, "runtime.") || strings.HasPrefix(l, "runtime/") {
			continue
		}
		return strings.HasPrefix(l, "zombiezen.com/go/commonmark")
	}
	return false
}

func evaluate(s *Scenario, st *runStats) (fail *Failure) {
	for _, p := range s.Prelude {
		func() {
			defer func() { recover() }()
			evaluate(p, newStats())
		}()
	}
	defer func() {
		// a panic that escapes the per-check guards (the harness taking a
		// snapshot of a block the library has corrupted after delivery, a
		// retained parse re-read during a later evaluation): if it was raised
		// INSIDE the library - an accessor of the public API panicking on the
		// library's own tree - it is a failure of this evaluation; a panic raised
		// in harness code is a harness defect and goes on to end the process
		if r := recover(); r != nil {
			if _, ok := r.(simrt.BudgetExceeded); !ok && !panicRaisedInLibrary(string(debug.Stack())) {
				panic(r)
			}
			fail = &Failure{Check: "panic", Observed: fmt.Sprint(r), Stack: trunc(string(debug.Stack()), 6000)}
			if be, ok := r.(simrt.BudgetExceeded); ok {
				fail = &Failure{Check: "step-budget", Observed: fmt.Sprintf("exceeded %d yield steps", be.Steps)}
			}
		}
	}()
	st.Evaluations++
	st.Outcome = 0
	evalSeq++
	if evalSeq%96 == 0 {
		runtime.GC() // the only collections of this process (see setupProcess)
	}
	nontrivial := false
	applyKnobs(s.Knobs)
	defer applyKnobs(nil)
	envBefore := simrt.EnvReads()
	applyEnv(s.Env)
	defer func() {
		if n := simrt.EnvReads() - envBefore; n > 0 {
			st.Probes["code_under_test_read_clock_cpu_count_or_random_source"] += int(n)
		}
	}()
	if len(s.Doc) > 256<<10 {
		// megabyte documents: collect after each (a pure function of the history)
		defer runtime.GC()
	}
	switch s.Property {
	case "C01", "C08":
		if s.Phase == "memory" {
			fail = guard("panic", func() *Failure { return checkC01Memory(s.Doc) })
			nontrivial = true
			st.Probes["in_memory_configuration"]++
			break
		}
		var obs *streamObs
		fail = guard("panic", func() *Failure {
			if s.Property == "C08" {
				// a Parse panic on the reference side is C04's finding
				if _, _, ok := safeParse(s.Doc[:minInt(len(s.Doc), faultLimit(s))]); !ok {
					st.Skipped++
					return nil
				}
			}
			obs = runStream(s.Doc, s.Reader)
			if s.Property == "C01" {
				return checkC01Stream(s.Doc, s.Reader, obs)
			}
			return checkC08(s.Doc, s.Reader, obs)
		})
		if obs != nil {
			if fail == nil {
				if msg := checkRetained(); msg != "" {
					id := "stability"
					if s.Property == "C08" {
						id = "snap"
					}
					fail = &Failure{Check: id, Observed: msg}
				}
			}
			sinceRetain++
			if len(s.Doc) <= 8192 && (sinceRetain >= 3 || len(retained) == 0) {
				sinceRetain = 0
				// one parse in three is kept (and watched during the next three)
				retain(obs.Blocks, fmt.Sprintf("streaming, %d bytes, seed %d run %d", len(s.Doc), s.Seed, s.Run))
			}
			nontrivial = streamStats(s, obs, st)
			h := uint64(len(obs.Blocks))<<32 ^ uint64(obs.NextCalls)
			for _, e := range obs.Reader.Hist {
				h = mix64(h ^ uint64(e.Seq)<<40 ^ uint64(e.LenP)<<20 ^ uint64(e.N) ^ hashString(e.Err))
			}
			for _, b := range obs.Blocks {
				h = mix64(h ^ uint64(b.StartOffset)<<32 ^ uint64(b.EndOffset) ^ uint64(b.StartLine)<<48)
			}
			st.Outcome = h
		}
	case "C04":
		if s.Phase == "memhuge" {
			fail = checkC04MemHuge(s)
			st.Probes["in_memory_parse_of_a_root_block_above_the_streaming_limit"]++
			st.Logical["bytes_parsed_in_memory"] += int64(len(s.Doc))
			st.Outcome = mix64(uint64(len(s.Doc)))
			nontrivial = true
			break
		}
		f, obs := checkC04(s)
		fail = f
		st.Logical["reads"] += int64(obs.Reads)
		st.Logical["writes"] += int64(obs.Writes)
		st.Logical["callbacks"] += int64(obs.Callbacks)
		st.Logical["yield_steps"] += int64(obs.Steps)
		st.Outcome = mix64(obs.Steps ^ uint64(obs.Reads)<<40 ^ uint64(obs.Writes)<<20 ^ uint64(obs.Callbacks))
		if obs.MaxRatio > st.MaxStepRatio {
			w := s.clone()
			w.Note = fmt.Sprintf("stage %s used %.4f of its step budget (%d-byte document)", obs.MaxStage, obs.MaxRatio, len(s.Doc))
			if len(w.Doc) > 400 {
				w.Doc = w.Doc[:400]
			}
			w.Renders, w.Prelude = nil, nil
			st.Worst = w
			st.MaxStepRatio = obs.MaxRatio
		}
		if obs.LimitHit {
			st.Faults["block_too_large_limit_hit"]++
		}
		if obs.ReaderFail {
			st.Faults["reader_error"]++
		}
		if obs.WriterFail > 0 {
			st.Faults["writer_failure"] += obs.WriterFail
		}
		if obs.MatcherPanics > 0 {
			st.Faults["reference_matcher_panicked_caller_recovered_and_reused_the_parser"] += obs.MatcherPanics
		}
		if obs.HealthyAfterFailed > 0 {
			st.Probes["healthy_format_and_render_after_a_failed_call"] += obs.HealthyAfterFailed
		}
		st.Faults["stream_cut_at_k"]++
		st.Probes["render_configurations_run"] += len(s.Renders)
		nontrivial = true
	case "C18":
		var obs *walkObs
		fail = guard("panic", func() *Failure {
			f, o := checkC18(s)
			obs = o
			return f
		})
		if obs != nil {
			st.Logical["callbacks"] += int64(obs.Callbacks)
			st.Outcome = hashString(histDigest(obs.Hist))
			st.Faults["prune"] += obs.Prunes
			st.Faults["abort"] += obs.Aborts
			if obs.Unwound {
				st.Faults["callback_left_walk_by_panicking"]++
			}
			st.Faults["reentrant_walk"] += obs.NestedWalks
			if s.Walk.PreNil {
				st.Probes["pre_nil"]++
			}
			if obs.Warmed {
				st.Probes["options_value_had_served_an_earlier_complete_walk"]++
			}
			if obs.Collections > 0 {
				st.Faults["garbage_collection_at_a_chosen_instant"] += obs.Collections
			}
			if s.Walk.PostNil {
				st.Probes["post_nil"]++
			}
			st.Probes["view_"+s.Walk.View]++
			switch s.Walk.Tree {
			case "prewalked":
				st.Probes["tree_walked_while_unparsed_then_rewritten"]++
			case "unparsed":
				st.Probes["tree_as_delivered_by_NextBlock_never_rewritten"]++
			}
			nontrivial = obs.Prunes+obs.Aborts+obs.NestedWalks > 0 || obs.Unwound || s.Walk.View != "default" || s.Walk.PreNil || s.Walk.PostNil
		}
	case "C19":
		var f *Failure
		var obs *schedObs
		if s.Phase == "cold" && !coldChild {
			f, obs = runColdChild(s)
		} else {
			f, obs = checkC19(s)
		}
		fail = f
		st.Faults["preemption"] += obs.Switches
		for _, t := range obs.Triples {
			st.Triples[t] = struct{}{}
		}
		for _, x := range obs.TaskSteps {
			st.Logical["yield_steps"] += int64(x)
		}
		for _, k := range obs.Kinds {
			st.Probes["task_"+k]++
			if k == "gc" {
				st.Faults["garbage_collection_at_a_chosen_instant"] += 3
			}
		}
		if obs.ColdFallback != "" {
			st.Probes["cold_child_unavailable_evaluated_in_worker"]++
		}
		if raceEnabled {
			st.Probes["race_detector_active"]++
		}
		if obs.Stalled {
			st.Probes["finished_free_running_task_blocked_on_parked_task"]++
		}
		if obs.Foreign {
			st.Probes["finished_without_preemption_library_started_goroutines"]++
		}
		nontrivial = obs.Switches > 0
		{
			h := uint64(obs.Switches)
			for _, t := range obs.Triples {
				h = mix64(h ^ uint64(t[0])<<40 ^ uint64(t[1])<<16 ^ uint64(t[2]))
			}
			for _, x := range obs.TaskSteps {
				h = mix64(h ^ x)
			}
			st.Outcome = h ^ hashString(obs.RaceReport)
		}
		if nontrivial {
			h := uint64(0)
			for _, t := range obs.Triples {
				h = mix64(h ^ uint64(t[0])<<40 ^ uint64(t[1])<<16 ^ uint64(t[2]))
			}
			st.SchedDigests[h] = struct{}{}
		}
	case "C20":
		if s.Phase == "interleaved" {
			// concurrent Format calls on one tree: "the same bytes every time"
			f, obs := checkC19(s)
			if f != nil {
				ids := append([]string{f.Check}, f.Also...)
				fail = nil
				for _, id := range ids {
					switch id {
					case "result", "sequential-nondeterminism":
						fail = &Failure{Check: "determinism", Observed: "interleaved Format calls: " + f.Observed, Expected: f.Expected}
					case "shared-tree-touched":
						fail = &Failure{Check: "tree-touched", Observed: "interleaved Format calls: " + f.Observed}
					case "panic":
						fail = &Failure{Check: "panic", Observed: f.Observed}
					}
					if fail != nil {
						break
					}
				}
			}
			st.Faults["preemption"] += obs.Switches
			st.Probes["interleaved_format_scenarios"]++
			nontrivial = obs.Switches > 0
			st.Outcome = uint64(obs.Switches)
			break
		}
		var obs *sinkObs
		fail = guard("panic", func() *Failure {
			f, o := checkC20(s)
			obs = o
			return f
		})
		if obs != nil {
			if obs.Skipped {
				st.Skipped++
			}
			st.Logical["writes"] += int64(obs.Writes)
			st.Outcome = uint64(obs.Writes)<<32 ^ uint64(obs.HealthyLen)
			if obs.Collected {
				st.Faults["garbage_collection_at_a_chosen_instant"]++
			}
			if obs.StdWriters > 0 {
				st.Probes["healthy_run_into_bytes.Buffer_strings.Builder_bufio.Writer"]++
			}
			if obs.FileWriters > 0 {
				st.Probes["run_into_os.File_healthy_closed_and_read_only"]++
				st.Faults["write_failure_os.File_closed_or_read_only"] += obs.FileWriters
			}
			if obs.Fired {
				if s.Writer.FailAt >= 0 {
					st.Faults["write_failure_at_index"]++
					if s.Writer.Full {
						st.Faults["write_failure_reporting_full_count_with_error"]++
					}
				} else {
					st.Faults["write_failure_byte_budget"]++
				}
				if s.Writer.Err != "" {
					st.Faults["write_failure_error_is_"+s.Writer.Err]++
				}
				if s.Writer.Flavour == "richwriter" {
					st.Probes["richwriter_flavour"]++
				}
				if s.Writer.Flavour == "stringwriter" {
					st.Probes["stringwriter_flavour"]++
				}
				nontrivial = true
			}
		}
	default:
		panic("unknown property " + s.Property)
	}
	if nontrivial {
		st.Digests[s.digest()] = struct{}{}
	}
	return fail
}

func minInt(a, b int) int {
	if a < b {
		return a
	}
	return b
}

func faultLimit(s *Scenario) int {
	if s.Reader != nil && s.Reader.Fault.Kind != "none" && s.Reader.Fault.Kind != "" {
		if s.Reader.Fault.At < 0 {
			return 0
		}
		return s.Reader.Fault.At
	}
	return len(s.Doc)
}

// streamStats counts faults that FIRED and probes that were HIT.
func streamStats(s *Scenario, obs *streamObs, st *runStats) (nontrivial bool) {
	rd := obs.Reader
	doc := s.Doc
	st.Logical["reads"] += int64(rd.Reads)
	st.Logical["nextblock_calls"] += int64(obs.NextCalls)
	dataReads := 0
	pos := 0
	for _, e := range rd.Hist {
		if e.N > 0 {
			dataReads++
			pos += e.N
			if pos < len(doc) && pos > 0 {
				if doc[pos-1] == '\r' && doc[pos] == '\n' {
					st.Probes["cut_between_CR_and_LF"]++
				}
				if doc[pos-1] == 0 && doc[pos] == 0 {
					st.Probes["cut_inside_NUL_run"]++
				}
				if doc[pos]&0xc0 == 0x80 && !utf8.RuneStart(doc[pos]) && doc[pos-1] >= 0x80 {
					st.Probes["cut_inside_multibyte_sequence"]++
				}
			}
		}
	}
	st.Faults["empty_read"] += rd.EmptyReads
	if rd.Scribbled > 0 {
		st.Faults["reader_scribbled_unfilled_part_of_p"] += rd.Scribbled
	}
	if s.Reader.Rich {
		st.Probes["reader_offers_WriterTo_ByteReader_Len"]++
	}
	if s.Reader.Std != "" {
		if rd.FileFallback {
			st.Probes["reader_std_value_unavailable_in_memory_reader_stood_in_"+s.Reader.Std]++
		} else {
			st.Probes["reader_is_std_"+s.Reader.Std]++
		}
		if rd.Reused {
			st.Faults["caller_reused_reader_storage_after_parse"]++
		}
	}
	if obs.Collections > 0 {
		st.Faults["garbage_collection_at_a_chosen_instant"] += obs.Collections
	}
	if obs.ReusedIP {
		st.Probes["blocks_completed_through_one_long_lived_InlineParser_value"]++
	}
	if obs.CompTurns > 0 {
		st.Probes["caller_multiplexed_a_second_parse_"+s.Reader.Companion.Mode]++
		st.Probes["companion_parse_turns_between_NextBlock_calls"] += obs.CompTurns
	}
	if obs.EagerRewrites > 0 {
		st.Probes["consumer_completed_blocks_between_NextBlock_calls"] += obs.EagerRewrites
		st.Probes["consumer_schedule_"+s.Reader.Consumer]++
	}
	if rd.DataWithErr > 0 {
		if s.Reader.Fault.Kind == "error" {
			st.Faults["data_returned_with_error"]++
		} else {
			st.Faults["data_returned_with_EOF"]++
		}
	}
	switch s.Reader.Fault.Kind {
	case "error":
		st.Faults["reader_error_"+s.Reader.Fault.Err]++
	case "early-eof":
		st.Faults["early_eof"]++
	}
	if rd.AfterTerm > 0 {
		st.Probes["read_after_terminal_condition"]++
	}
	for i := range obs.ReadsAt {
		prev := 0
		if i > 0 {
			prev = obs.ReadsAt[i-1]
		}
		if i > 0 && obs.ReadsAt[i] == prev {
			st.Probes["block_served_from_leftover_queue_without_read"]++
			if obs.Blocks[i].Kind() == commonmark.LinkReferenceDefinitionKind && obs.Blocks[i-1].Kind() == commonmark.LinkReferenceDefinitionKind {
				st.Probes["several_reference_definitions_split_off_one_paragraph"]++
			}
		}
		if obs.ReadsAt[i]-prev >= 2 {
			st.Probes["block_assembled_from_several_reads"]++
		}
	}
	if s.Reader.Fault.Kind != "none" && s.Reader.Fault.Kind != "" {
		k := rd.Limit()
		_, ranges := deliveryPoints(doc)
		for _, rg := range ranges {
			if rg[0] < k && k < rg[1] {
				st.Faults["fault_landed_while_block_open"]++
				break
			}
		}
	}
	if c, ok := s.Knobs["chunkSize"]; ok {
		st.Probes[fmt.Sprintf("knob_chunkSize_%d", c)]++
	}
	if m, ok := s.Knobs["maxBlockSize"]; ok && m > 0 {
		st.Probes["knob_block_size_limit_just_above_need"]++
		if in := doc[:rd.Limit()]; m < len(in)+2*bytes.Count(in, []byte{0}) {
			st.Probes["knob_block_size_limit_below_document_size_every_root_block_fits"]++
		}
	}
	if obs.ExtraErrs != nil {
		st.Probes["calls_after_terminal_error"] += len(obs.ExtraErrs)
	}
	return dataReads > 1 || rd.EmptyReads > 0 || s.Reader.Fault.Kind == "error" || s.Reader.Fault.Kind == "early-eof" ||
		rd.DataWithErr > 0 || len(s.Knobs) > 0 || rd.Scribbled > 0 || obs.EagerRewrites > 0 || s.Reader.Std != "" || obs.Collections > 0
}
