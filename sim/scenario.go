package main

import (
	"crypto/sha256"
	"encoding/hex"
	"encoding/json"
	"os"

	"verif/simrt"
)

// Scenario is the explicit, PRNG-free description of one simulated run.  A
// replay file is a Scenario plus the failing check id and what was observed.
type Scenario struct {
	Property string `json:"property"`
	Check    string `json:"check,omitempty"`
	Phase    string `json:"phase,omitempty"`
	Seed     uint64 `json:"seed"`
	Run      int    `json:"run"`
	Sub      int    `json:"sub,omitempty"`
	Variant  string `json:"variant,omitempty"`

	Knobs map[string]int `json:"knobs,omitempty"`

	// Env: what the code under test is told when it asks its environment (the
	// instrumenter redirects time.Now/Since/Until/Sleep, runtime.NumCPU /
	// GOMAXPROCS(0) and the global math/rand functions to the simulator).
	Env *EnvScn `json:"env,omitempty"`

	Doc    []byte `json:"doc_b64"`
	DocSHA string `json:"doc_sha256,omitempty"`

	Reader *ReaderScn `json:"reader,omitempty"`
	Writer *WriterScn `json:"writer,omitempty"`
	Render *RenderScn `json:"render,omitempty"`
	Walk   *WalkScn   `json:"walk,omitempty"`

	// C04: additional renderer configurations and the in-memory switch.
	Renders []RenderScn `json:"renders,omitempty"`

	// C19
	Docs     [][]byte            `json:"docs_b64,omitempty"`
	Tasks    []TaskScn           `json:"tasks,omitempty"`
	Arena    bool                `json:"arena,omitempty"` // parse inputs are adjacent sub-slices of one backing array
	Switches []simrt.SwitchEntry `json:"switches,omitempty"`

	// Prelude: scenarios executed (verdicts ignored) in the same process before
	// this one — the recorded history for defects that leak state between calls.
	Prelude []*Scenario `json:"prelude,omitempty"`

	Observed string `json:"observed,omitempty"`
	Expected string `json:"expected,omitempty"`
	Stack    string `json:"stack,omitempty"`
	Note     string `json:"note,omitempty"`
}

type FaultScn struct {
	Kind     string `json:"kind"`          // none | error | early-eof
	At       int    `json:"at"`            // bytes delivered before the fault
	Err      string `json:"err,omitempty"` // sentinel | unexpected-eof | wraps-eof | eof
	WithData bool   `json:"with_data,omitempty"`
}

type ReaderScn struct {
	Ops        []int    `json:"ops"`      // read sizes; 0 = empty read (0,nil)
	Terminal   string   `json:"terminal"` // separate | with-data
	Fault      FaultScn `json:"fault"`
	ExtraCalls int      `json:"extra_calls"`
	Family     string   `json:"family,omitempty"`
	// Scribble: the reader uses the part of p it does not fill as scratch space
	// (io.Reader: "even if Read returns n < len(p), it may use all of p as
	// scratch space during the call"): "" | garbage | newline | nul | data
	Scribble string `json:"scribble,omitempty"`
	// Rich: the reader also offers io.WriterTo, io.ByteReader and Len() (what
	// *bytes.Reader, *strings.Reader and *bufio.Reader look like to a callee
	// that probes for fast paths); all of them serve the same stream, schedule
	// and fault
	Rich bool `json:"rich,omitempty"`
	// GC: the garbage collector runs at an instant the scenario chooses - a
	// collection (with time for finalizers to run) after every GCEvery-th
	// NextBlock return ("mid"), after the end of the stream once the parser
	// itself is unreachable ("end"), or both.  Blocks the caller still holds
	// must not notice (a parser that hands its buffer back to a pool from a
	// finalizer, a pool emptied in the middle of a parse).
	GC      string `json:"gc,omitempty"`
	GCEvery int    `json:"gc_every,omitempty"`
	// Std: the reader handed to NewBlockParser is a standard-library value
	// (a callee may type-switch on well-known concrete types): "bytes.Buffer",
	// "bytes.Reader", "strings.Reader" hold the stream up to the fault point
	// (no schedule, no error fault); "bufio.Reader" wraps the simulated reader
	// and keeps its schedule and faults.  When the parse is over the caller
	// REUSES what it owns: the bytes.Buffer is Reset and refilled, the slice
	// under the bytes.Reader is overwritten - blocks already delivered must
	// not notice.
	Std string `json:"std,omitempty"`
	// Consumer: WHEN the caller completes the blocks it has received (the
	// caller's side of the schedule).  "" = all blocks after the end of the
	// stream (what Parse does); "eager" = every block is rewritten as soon as
	// NextBlock has returned it, before the next call, through a matcher that
	// holds the reference map of an earlier pass over the same stream (the
	// two-pass recipe of a caller that renders while it reads); "eager-use" =
	// additionally renders and formats the block at once
	Consumer string `json:"consumer,omitempty"`
	// Companion: the caller multiplexes a SECOND parse in the same goroutine
	// (a server that reads two streams in turns, an include directive that
	// parses a snippet while the outer document is half read).  Between two
	// NextBlock calls of the main parser the companion parser is advanced by a
	// few NextBlock calls of its own, or a complete in-memory Parse of the
	// companion document runs.  Each parse must come out as if it had run
	// alone; state that outlives a single NextBlock call somewhere else than in
	// the parser value itself (a pooled line parser that keeps the queue of
	// closed blocks, a package-level scratch tree) shows only then.
	Companion *CompanionScn `json:"companion,omitempty"`
}

// EnvScn: the simulated environment of one evaluation.  The clock of a
// process never goes back: it starts at a fixed epoch and is moved forward by
// ClockJump before the evaluation and by ClockPerYield at every yield step, so
// its value is a pure function of the recorded history.
type EnvScn struct {
	ClockJump     int64  `json:"clock_jump_ns,omitempty"`
	ClockPerYield int64  `json:"clock_ns_per_yield,omitempty"`
	CPUs          int    `json:"cpus,omitempty"` // what runtime.NumCPU() / GOMAXPROCS(0) answer; 0 = the real value
	RandSeed      uint64 `json:"rand_seed,omitempty"`
}

// genEnv draws the environment of sub-scenario j of run i from a stream of
// its own (the scenario's other draws are unaffected).
func genEnv(seed uint64, stream string, i, j int) *EnvScn {
	r := rngFor(seed, stream+"/env", i*64+j)
	e := &EnvScn{RandSeed: r.U64()}
	// time between two evaluations: none, milliseconds, seconds, minutes, hours
	e.ClockJump = []int64{0, 0, 1e6, 5e7, 1e9, 1e9, 61e9, 3601e9}[r.Intn(8)] * int64(1+r.Intn(3))
	// time during an evaluation: frozen, or 1 ns .. 1 s per yield step
	e.ClockPerYield = []int64{0, 0, 1, 1e3, 1e6, 2e7, 1e9}[r.Intn(7)]
	e.CPUs = []int{0, 1, 2, 4, 8, 16, 64}[r.Intn(7)]
	return e
}

func applyEnv(e *EnvScn) {
	if e == nil {
		simrt.AdvanceClock(0, 0)
		simrt.SetKnob("cpus", 0)
		return
	}
	simrt.AdvanceClock(e.ClockJump, e.ClockPerYield)
	simrt.SetKnob("cpus", e.CPUs)
	simrt.SeedRand(e.RandSeed)
}

type CompanionScn struct {
	Doc   []byte `json:"doc"`
	Mode  string `json:"mode"`  // stream | parse: turns between two NextBlock calls; stream@read | parse@read: turns INSIDE the main reader's Read calls (every Every-th), i.e. while the main parser is in the middle of NextBlock
	Every int    `json:"every"` // a turn after every Every-th NextBlock return of the main parser (and one before the first)
	Steps int    `json:"steps"` // NextBlock calls of the companion per turn (stream mode)
	Chunk int    `json:"chunk"` // read size of the companion's reader
}

type WriterScn struct {
	Flavour    string `json:"flavour"`           // writer | stringwriter | richwriter
	FailAt     int    `json:"fail_at_write"`     // index of the failing call, -1 = never
	ByteBudget int    `json:"byte_budget"`       // -1 = unlimited; crossing write is partial+error
	Partial    int    `json:"partial,omitempty"` // bytes accepted by the failing call (FailAt mode)
	// Full: the failing call reports EVERY byte as written together with the
	// error (a device that took the data and then failed to flush it).  Legal:
	// io.Writer only demands an error when n < len(p).
	Full bool `json:"full,omitempty"`
	// Err: which error value the failing call returns ("" = a private
	// sentinel; see writerErrKinds)
	Err string `json:"err,omitempty"`
	// GC: a garbage collection (finalizers included) runs between the failed
	// Format and the healthy one that follows it
	GC bool `json:"gc,omitempty"`
}

type RenderScn struct {
	SoftBreak int    `json:"soft_break"`
	IgnoreRaw bool   `json:"ignore_raw"`
	Filter    string `json:"filter"` // nil | gfm | always | never | set:<hex seed>
	Shared    bool   `json:"shared_renderer,omitempty"`
}

type WalkScn struct {
	PreNil   bool   `json:"pre_nil,omitempty"`
	PostNil  bool   `json:"post_nil,omitempty"`
	View     string `json:"view"` // default | virtual-root | reversed | filtered
	Block    int    `json:"block"`
	RootPath []int  `json:"root_path,omitempty"` // child indices (mod count) from the root block down to the node the walk starts at
	HideSeed uint64 `json:"hide_seed,omitempty"`
	Tape     string `json:"tape"` // '1' = descend/continue, '0' = prune/abort; beyond the end: '1'
	// TapeSkip: the first TapeSkip callbacks are answered '1' before the tape
	// starts, so that a prune / abort / panic can fall tens of thousands of
	// callbacks into the walk of a very wide tree
	TapeSkip  int  `json:"tape_skip,omitempty"`
	Reentrant bool `json:"reentrant,omitempty"`
	// SameOpts: the nested (re-entrant) walks are given the very same
	// *WalkOptions value as the outer walk
	SameOpts bool `json:"same_opts,omitempty"`
	// Warm: the *WalkOptions value has already served one complete top-level
	// walk of the same tree when the recorded walk starts (a caller that keeps
	// one options value around)
	Warm bool `json:"warm,omitempty"`
	// GC: a garbage collection runs between the walks of the scenario (after
	// the warm-up walk, before the sequel walk) and inside the first callback
	GC bool `json:"gc,omitempty"`
	// Tree: how the walked tree came to be.  "" = commonmark.Parse.
	// "prewalked" = the blocks were received from a BlockParser, WALKED
	// (completely, with the default accessors and with the scenario's view)
	// while their inlines were still unparsed, then completed with
	// Extract + Rewrite - the tree the recorded walk sees is the rewritten one
	// (a walker that remembers what a block's children were).  "unparsed" =
	// the blocks are walked as NextBlock delivered them, never rewritten
	// (UnparsedKind leaves are nodes like any other).
	Tree string `json:"tree,omitempty"`
}

type TaskScn struct {
	Kind   string     `json:"kind"` // parse | stream | render | append | format | walk
	Doc    int        `json:"doc"`
	Reader *ReaderScn `json:"reader,omitempty"`
	Render *RenderScn `json:"render,omitempty"`
	Walk   *WalkScn   `json:"walk,omitempty"`
	Writer *WriterScn `json:"writer,omitempty"`
}

// Failure is what a run reports.
type Failure struct {
	Check    string
	Observed string
	Expected string
	Stack    string
	Also     []string // further check ids that failed in the same run
}

// matches reports whether the failure belongs to the class of check id.
func (f *Failure) matches(check string) bool {
	if f == nil {
		return false
	}
	if check == "" || f.Check == check {
		return true
	}
	for _, a := range f.Also {
		if a == check {
			return true
		}
	}
	return false
}

func docSHA(b []byte) string {
	s := sha256.Sum256(b)
	return hex.EncodeToString(s[:])
}

func (s *Scenario) clone() *Scenario {
	// the recorded history can be hundreds of scenarios; they are never
	// modified, so the copy shares them (a fresh slice, the same elements)
	shallow := *s
	shallow.Prelude = nil
	b, _ := json.Marshal(&shallow)
	var c Scenario
	_ = json.Unmarshal(b, &c)
	if s.Prelude != nil {
		c.Prelude = append([]*Scenario(nil), s.Prelude...)
	}
	return &c
}

func (s *Scenario) digest() uint64 {
	c := *s
	c.Prelude, c.Sub = nil, 0
	c.Seed, c.Run, c.Observed, c.Expected, c.Stack, c.Check, c.Note, c.DocSHA = 0, 0, "", "", "", "", "", ""
	b, _ := json.Marshal(&c)
	return hashBytes(0, b)
}

func writeScenario(path string, s *Scenario) error {
	s.DocSHA = docSHA(s.Doc)
	b, err := json.MarshalIndent(s, "", " ")
	if err != nil {
		return err
	}
	return os.WriteFile(path, append(b, '\n'), 0o644)
}

func readScenario(path string) (*Scenario, error) {
	b, err := os.ReadFile(path)
	if err != nil {
		return nil, err
	}
	var s Scenario
	if err := json.Unmarshal(b, &s); err != nil {
		return nil, err
	}
	return &s, nil
}

func trunc(s string, n int) string {
	if len(s) <= n {
		return s
	}
	return s[:n] + "…(" + itoa(len(s)-n) + " more)"
}
