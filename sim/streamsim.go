package main

import (
	"bytes"
	"errors"
	"fmt"
	"io"
	"runtime"
	"runtime/debug"
	"strings"
	"unsafe"

	"verif/simrt"
	"zombiezen.com/go/commonmark"
)

// streamObs is everything observed while a streaming parse ran.
type streamObs struct {
	Blocks    []*commonmark.RootBlock
	AtSnap    []string // snapshot (position, Source, unparsed tree) at delivery
	Delivered []int    // bytes the reader had handed out when the block was returned
	ReadsAt   []int    // number of Read calls made when the block was returned
	FirstErr  error
	ExtraErrs []error
	ExtraBlk  int // blocks returned by calls made after the first error
	Refs      commonmark.ReferenceMap
	Reader    *SimReader
	Stable    string // "" or description of a changed earlier block
	NextCalls int
	// EagerRewrites counts blocks completed between two NextBlock calls
	EagerRewrites int
	Collections   int // garbage collections the scenario placed
	// companion parse (rs.Companion): turns taken, and what came out wrong
	ReusedIP   bool // the blocks were completed through the process-wide caller-held InlineParser
	CompTurns  int
	CompTiling *Failure // the companion's own blocks violate a C01 clause
	CompModel  *Failure // the companion's result differs from Parse(companion document)
}

// chunkReader serves b in reads of at most n bytes, then (0, io.EOF).
type chunkReader struct {
	b []byte
	n int
}

func (c *chunkReader) Read(p []byte) (int, error) {
	if len(c.b) == 0 {
		return 0, io.EOF
	}
	n := c.n
	if n > len(p) {
		n = len(p)
	}
	if n > len(c.b) {
		n = len(c.b)
	}
	copy(p, c.b[:n])
	c.b = c.b[n:]
	return n, nil
}

// companion is the second parse a caller multiplexes with the main one.
type companion struct {
	scn    *CompanionScn
	doc    []byte
	p      *commonmark.BlockParser
	blocks []*commonmark.RootBlock
	atSnap []string
	refs   commonmark.ReferenceMap
	done   bool
	err    error
	first  string // parse mode: snapshot of the first turn's result
	fail   *Failure
	inRead bool // turns are taken INSIDE the main reader's Read calls (the reader re-enters the library)
	parse  bool // a turn is a complete in-memory Parse
}

// reusedIP is the caller-held InlineParser of the "reused-ip" consumer; it
// lives as long as the process (its history is what a replay's prelude replays).
var reusedIP *commonmark.InlineParser

func newCompanion(c *CompanionScn) *companion {
	if c == nil {
		return nil
	}
	doc := append([]byte(nil), c.Doc...)
	chunk := c.Chunk
	if chunk < 1 {
		chunk = 1
	}
	cp := &companion{scn: c, doc: doc, refs: make(commonmark.ReferenceMap)}
	cp.inRead = strings.HasSuffix(c.Mode, "@read")
	cp.parse = strings.HasPrefix(c.Mode, "parse")
	if !cp.parse {
		cp.p = commonmark.NewBlockParser(&chunkReader{b: append([]byte(nil), doc...), n: chunk})
	}
	return cp
}

// turn advances the companion: steps NextBlock calls (steps < 0: to the end).
func (cp *companion) turn(steps int) {
	if cp.parse {
		blocks, refs := commonmark.Parse(append([]byte(nil), cp.doc...))
		got := snapAll(blocks) + snapRefs(refs)
		if cp.first == "" {
			cp.first = got
			cp.blocks, cp.refs = blocks, refs
		} else if got != cp.first && cp.fail == nil {
			cp.fail = &Failure{Check: "snap", Observed: "companion: in-memory Parse of the same bytes gave a different result on a later turn: " + firstDiff(got, cp.first)}
		}
		return
	}
	for i := 0; (steps < 0 || i < steps) && !cp.done; i++ {
		b, err := cp.p.NextBlock()
		if err != nil {
			cp.done, cp.err = true, err
			if b != nil {
				cp.blocks = append(cp.blocks, b)
			}
			return
		}
		if b == nil || len(cp.blocks) > 4*len(cp.doc)+16 {
			cp.done, cp.err = true, errors.New("harness: companion NextBlock misbehaves")
			return
		}
		cp.blocks = append(cp.blocks, b)
		cp.refs.Extract(b.Source, b.AsNode())
		cp.atSnap = append(cp.atSnap, snapRoot(b))
	}
}

// finish drains the companion and evaluates it as a parse of its own.
func (cp *companion) finish(obs *streamObs) {
	cp.turn(-1)
	if cp.parse {
		obs.CompModel = cp.fail
		obs.CompTiling = tilingCheck(cp.doc, cp.blocks)
		return
	}
	for i, b := range cp.blocks {
		if i < len(cp.atSnap) && snapRoot(b) != cp.atSnap[i] {
			obs.CompTiling = &Failure{Check: "stability", Observed: fmt.Sprintf("companion: block %d changed after delivery: %s", i, firstDiff(cp.atSnap[i], snapRoot(b)))}
			break
		}
	}
	if obs.CompTiling == nil {
		obs.CompTiling = tilingCheck(cp.doc, cp.blocks)
	}
	if obs.CompTiling != nil && !strings.HasPrefix(obs.CompTiling.Observed, "companion") {
		obs.CompTiling.Observed = "companion: " + obs.CompTiling.Observed
	}
	ip := &commonmark.InlineParser{ReferenceMatcher: cp.refs}
	for _, b := range cp.blocks {
		ip.Rewrite(b)
	}
	model, modelRefs := commonmark.Parse(append([]byte(nil), cp.doc...))
	switch {
	case cp.err != io.EOF:
		obs.CompModel = &Failure{Check: "eof", Observed: fmt.Sprintf("companion: healthy reader, parse ended with %v", cp.err), Expected: "io.EOF"}
	case len(model) != len(cp.blocks):
		obs.CompModel = &Failure{Check: "count", Observed: fmt.Sprintf("companion: %d blocks: %s", len(cp.blocks), trunc(snapAll(cp.blocks), 1500)), Expected: fmt.Sprintf("%d blocks: %s", len(model), trunc(snapAll(model), 1500))}
	default:
		for i := range model {
			if got, want := snapRoot(cp.blocks[i]), snapRoot(model[i]); got != want {
				obs.CompModel = &Failure{Check: "snap", Observed: fmt.Sprintf("companion: block %d: %s", i, firstDiff(got, want)), Expected: trunc(want, 1500)}
				break
			}
		}
		if got, want := snapRefs(cp.refs), snapRefs(modelRefs); obs.CompModel == nil && got != want {
			obs.CompModel = &Failure{Check: "refs", Observed: "companion: " + got, Expected: want}
		}
	}
}

// collect runs a garbage collection and gives finalizers a chance to run.
func collect() {
	runtime.GC()
	for i := 0; i < 4; i++ {
		runtime.Gosched()
	}
	runtime.GC()
}

func applyKnobs(k map[string]int) {
	simrt.SetKnob("chunkSize", k["chunkSize"])
	simrt.SetKnob("maxBlockSize", k["maxBlockSize"])
}

// runStream executes the documented streaming recipe over a SimReader:
// NextBlock until the first error, ReferenceMap.Extract per block as it is
// received, 1-4 further calls, then InlineParser.Rewrite of every block.
func runStream(doc []byte, rs *ReaderScn) *streamObs { return runStreamWith(doc, rs, nil) }

// runStreamWith: sharedIP != nil replaces the per-stream InlineParser (whose
// matcher is the stream's own reference map) by a caller-held one that
// several goroutines use at once.
func runStreamWith(doc []byte, rs *ReaderScn, sharedIP *commonmark.InlineParser) *streamObs {
	seq := 0
	obs := &streamObs{Refs: make(commonmark.ReferenceMap)}
	var eager *commonmark.InlineParser
	var firstRefs commonmark.ReferenceMap
	if (rs.Consumer == "eager" || rs.Consumer == "eager-use") && sharedIP == nil {
		// first pass of the two-pass recipe: same stream, same schedule, same
		// fault; only its reference map is kept
		first := *rs
		first.Consumer = ""
		firstRefs = runStreamWith(doc, &first, nil).Refs
		eager = &commonmark.InlineParser{ReferenceMatcher: firstRefs}
	}
	rd := newSimReader(doc, rs, &seq)
	obs.Reader = rd
	defer func() {
		if rd.stdFile != nil { // the parse ended in a panic before the caller got to close its file
			rd.stdFile.Close()
		}
		if rd.commSet {
			restoreComm()
			rd.commSet = false
		}
	}()
	p := commonmark.NewBlockParser(rd.asReader())
	rd.afterConstruct()
	var comp *companion
	if sharedIP == nil {
		comp = newCompanion(rs.Companion)
	}
	if comp != nil && comp.inRead {
		// the READER re-enters the library: while the main parser is inside
		// NextBlock, waiting for its Read to return, the reader advances the
		// other parse (a reader that is itself a Markdown-processing stage)
		every := comp.scn.Every
		if every < 1 {
			every = 1
		}
		rd.onRead = func() {
			if rd.Reads%every == 0 && obs.CompTurns < 64 {
				comp.turn(comp.scn.Steps)
				obs.CompTurns++
			}
		}
	} else if comp != nil {
		comp.turn(comp.scn.Steps)
		obs.CompTurns++
	}
	for {
		obs.NextCalls++
		b, err := p.NextBlock()
		if err != nil {
			obs.FirstErr = err
			if b != nil {
				obs.Blocks = append(obs.Blocks, b)
			}
			break
		}
		if b == nil {
			obs.FirstErr = errors.New("harness: NextBlock returned (nil, nil)")
			break
		}
		obs.Blocks = append(obs.Blocks, b)
		obs.Delivered = append(obs.Delivered, rd.Delivered())
		obs.ReadsAt = append(obs.ReadsAt, rd.Reads)
		obs.Refs.Extract(b.Source, b.AsNode())
		if eager != nil {
			eager.Rewrite(b)
			obs.EagerRewrites++
			if rs.Consumer == "eager-use" {
				one := []*commonmark.RootBlock{b}
				_ = (&commonmark.HTMLRenderer{ReferenceMap: firstRefs}).Render(io.Discard, one)
				_ = formatBlocks(io.Discard, one)
			}
		}
		obs.AtSnap = append(obs.AtSnap, snapRoot(b))
		if (rs.GC == "mid" || rs.GC == "both") && rs.GCEvery > 0 && len(obs.Blocks)%rs.GCEvery == 0 && obs.Collections < 8 {
			collect()
			obs.Collections++
		}
		if len(obs.Blocks) > 4*len(doc)+16 {
			obs.FirstErr = errors.New("harness: more blocks than bytes")
			break
		}
		if comp != nil && !comp.inRead && comp.scn.Every > 0 && len(obs.Blocks)%comp.scn.Every == 0 && obs.CompTurns < 64 {
			comp.turn(comp.scn.Steps)
			obs.CompTurns++
		}
	}
	if comp != nil && !comp.inRead {
		// the companion goes on after the main stream has ended, and the main
		// parser is asked again afterwards
		comp.turn(comp.scn.Steps)
		obs.CompTurns++
	}
	for i := 0; i < rs.ExtraCalls; i++ {
		obs.NextCalls++
		b, err := p.NextBlock()
		if b != nil {
			obs.ExtraBlk++
		}
		obs.ExtraErrs = append(obs.ExtraErrs, err)
	}
	if comp != nil {
		rd.onRead = nil
		comp.finish(obs)
	}
	rd.reuse()
	if rs.GC == "end" || rs.GC == "both" {
		p = nil // the parser is unreachable from here on; the blocks are not
		collect()
		obs.Collections++
	}
	// stability: blocks delivered earlier must be unchanged by later calls
	for i, b := range obs.Blocks {
		if i >= len(obs.AtSnap) {
			break
		}
		if now := snapRoot(b); now != obs.AtSnap[i] {
			obs.Stable = fmt.Sprintf("block %d changed after delivery: %s", i, firstDiff(obs.AtSnap[i], now))
			break
		}
	}
	ip := &commonmark.InlineParser{ReferenceMatcher: obs.Refs}
	if sharedIP != nil {
		ip = sharedIP
	} else if rs.Consumer == "reused-ip" {
		// a caller that keeps ONE InlineParser value for every document it ever
		// processes and only re-points its matcher (the struct has that one
		// exported field): answers or scratch remembered inside the value leak
		// from one document into the next
		if reusedIP == nil {
			reusedIP = &commonmark.InlineParser{}
		}
		reusedIP.ReferenceMatcher = obs.Refs
		ip = reusedIP
		obs.ReusedIP = true
	}
	if eager == nil {
		for _, b := range obs.Blocks {
			ip.Rewrite(b)
		}
	} else if n := len(obs.Blocks); n > len(obs.AtSnap) {
		// a block that arrived together with the terminal error
		eager.Rewrite(obs.Blocks[n-1])
	}
	return obs
}

// guard runs f, converting a panic into a Failure with the given check id.
func guard(check string, f func() *Failure) (fail *Failure) {
	defer func() {
		if r := recover(); r != nil {
			if be, ok := r.(simrt.BudgetExceeded); ok {
				fail = &Failure{Check: "step-budget", Observed: fmt.Sprintf("exceeded %d yield steps", be.Steps)}
				return
			}
			fail = &Failure{Check: check, Observed: fmt.Sprint(r), Stack: trunc(string(debug.Stack()), 6000)}
		}
	}()
	return f()
}

// ---- independent arithmetic (shares no code with the library) -----------

func nulfix(b []byte) []byte {
	out := make([]byte, 0, len(b))
	for _, c := range b {
		if c == 0 {
			out = append(out, 0xef, 0xbf, 0xbd)
		} else {
			out = append(out, c)
		}
	}
	return out
}

// lineAt is the 1-based line of offset off: LF, CR and CRLF each end a line.
func lineAt(doc []byte, off int) int {
	line := 1
	for i := 0; i < off && i < len(doc); i++ {
		switch doc[i] {
		case '\n':
			line++
		case '\r':
			if !(i+1 < len(doc) && doc[i+1] == '\n') {
				line++
			}
		}
	}
	return line
}

func isBlankByte(c byte) bool { return c == ' ' || c == '\t' || c == '\r' || c == '\n' }

// tilingCheck evaluates the C01 clauses that hold for a finished parse of
// input (a prefix of the document when the stream was cut).
func tilingCheck(input []byte, blocks []*commonmark.RootBlock) *Failure {
	hasNul := bytes.IndexByte(input, 0) >= 0
	prevEnd := int64(0)
	for i, b := range blocks {
		s, e := b.StartOffset, b.EndOffset
		if s < prevEnd || e < s || e > int64(len(input)) {
			return &Failure{Check: "order", Observed: fmt.Sprintf("block %d range [%d,%d) after previous end %d, input length %d", i, s, e, prevEnd, len(input))}
		}
		for j := prevEnd; j < s; j++ {
			if !isBlankByte(input[j]) {
				return &Failure{Check: "gap", Observed: fmt.Sprintf("byte %d (%q) between blocks %d and %d is not blank", j, input[j], i-1, i)}
			}
		}
		want := nulfix(input[s:e])
		if !bytes.Equal(b.Source, want) {
			return &Failure{Check: "source", Observed: fmt.Sprintf("block %d [%d,%d) Source=%q", i, s, e, trunc(string(b.Source), 300)), Expected: fmt.Sprintf("%q", trunc(string(want), 300))}
		}
		if wl := lineAt(input, int(s)); b.StartLine != wl {
			return &Failure{Check: "line", Observed: fmt.Sprintf("block %d at offset %d StartLine=%d", i, s, b.StartLine), Expected: fmt.Sprint(wl)}
		}
		if !hasNul && e-s != int64(len(b.Source)) {
			return &Failure{Check: "len", Observed: fmt.Sprintf("block %d EndOffset-StartOffset=%d len(Source)=%d", i, e-s, len(b.Source))}
		}
		prevEnd = e
	}
	for j := prevEnd; j < int64(len(input)); j++ {
		if !isBlankByte(input[j]) {
			return &Failure{Check: "gap", Observed: fmt.Sprintf("byte %d (%q) after the last block is not blank", j, input[j])}
		}
	}
	return nil
}

// checkC01Stream: invariants at every NextBlock return plus the end-of-run
// clauses, against the bytes the reader handed out — never against Parse.
func checkC01Stream(doc []byte, rs *ReaderScn, obs *streamObs) *Failure {
	input := doc[:obs.Reader.Limit()]
	for i, b := range obs.Blocks {
		if i < len(obs.Delivered) && b.EndOffset > int64(obs.Delivered[i]) {
			return &Failure{Check: "causality", Observed: fmt.Sprintf("block %d ends at %d but only %d bytes had been delivered", i, b.EndOffset, obs.Delivered[i])}
		}
	}
	if obs.Stable != "" {
		return &Failure{Check: "stability", Observed: obs.Stable}
	}
	if obs.Reader.AfterTerm > 0 && obs.Reader.Limit() < len(doc) {
		// the parser read on after the terminal condition and the recovering
		// reader served bytes beyond the cut; C08 reports that, the tiling
		// clauses are evaluated only on what was legitimately delivered
		return nil
	}
	if f := tilingCheck(input, obs.Blocks); f != nil {
		return f
	}
	return obs.CompTiling
}

// checkC01Memory: the in-memory entry point (pre-filled buffer, no reads).
func checkC01Memory(doc []byte) *Failure {
	// the caller's slice has spare capacity (0, 1, 3, 4, 64, ... bytes): code
	// that appends to or pads the caller's slice in place only shows then
	spare := []int{0, 1, 3, 4, 16, 64, 3 * len(doc)}[(len(doc)+int(hashBytes(0, doc)%7))%7]
	backing := make([]byte, len(doc)+spare)
	for i := range backing {
		backing[i] = 0xAA
	}
	buf := backing[:len(doc)]
	copy(buf, doc)
	blocks, refs := commonmark.Parse(buf)
	if !bytes.Equal(buf, doc) {
		return &Failure{Check: "input-mutated", Observed: "Parse modified the caller's buffer: " + firstDiff(string(doc), string(buf))}
	}
	for i := len(doc); i < len(backing); i++ {
		if backing[i] != 0xAA {
			return &Failure{Check: "input-mutated", Observed: fmt.Sprintf("Parse wrote into the caller's backing array beyond len(source): byte %d of %d (spare capacity %d) is now %#x", i, len(backing), spare, backing[i])}
		}
	}
	if f := tilingCheck(doc, blocks); f != nil {
		return f
	}
	if bytes.IndexByte(doc, 0) < 0 {
		for i, b := range blocks {
			if len(b.Source) == 0 {
				continue
			}
			if unsafe.Pointer(&b.Source[0]) != unsafe.Pointer(&buf[b.StartOffset]) {
				return &Failure{Check: "alias", Observed: fmt.Sprintf("block %d Source is not a sub-slice of the caller's buffer", i)}
			}
		}
	}
	// Render and Format must not write through Source either
	var w bytes.Buffer
	_ = (&commonmark.HTMLRenderer{ReferenceMap: refs}).Render(&w, blocks)
	if !bytes.Equal(buf, doc) {
		return &Failure{Check: "input-mutated", Observed: "Render modified the caller's buffer: " + firstDiff(string(doc), string(buf))}
	}
	w.Reset()
	_ = formatBlocks(&w, blocks)
	if !bytes.Equal(buf, doc) {
		return &Failure{Check: "input-mutated", Observed: "Format modified the caller's buffer: " + firstDiff(string(doc), string(buf))}
	}
	return nil
}

// ---- C08 -----------------------------------------------------------------

// checkC08 compares the streaming observation with the reference model
// Parse(copy(doc[:k])).
func checkC08(doc []byte, rs *ReaderScn, obs *streamObs) *Failure {
	k := obs.Reader.Limit()
	model, modelRefs := commonmark.Parse(append([]byte(nil), doc[:k]...))
	faulty := rs.Fault.Kind == "error"
	pfx := ""
	if rs.Fault.Kind != "none" && rs.Fault.Kind != "" {
		pfx = "fault-"
	}
	if len(obs.Blocks) != len(model) {
		id := "count"
		if pfx != "" {
			id = "fault-blocks"
		}
		return &Failure{Check: id, Observed: fmt.Sprintf("%d blocks: %s", len(obs.Blocks), trunc(snapAll(obs.Blocks), 1500)), Expected: fmt.Sprintf("%d blocks: %s", len(model), trunc(snapAll(model), 1500))}
	}
	for i := range model {
		got, want := snapRoot(obs.Blocks[i]), snapRoot(model[i])
		if got != want {
			id := "snap"
			if pfx != "" {
				id = "fault-blocks"
			}
			return &Failure{Check: id, Observed: fmt.Sprintf("block %d: %s", i, firstDiff(got, want)), Expected: trunc(want, 1500)}
		}
	}
	if got, want := snapRefs(obs.Refs), snapRefs(modelRefs); got != want {
		return &Failure{Check: pfx + "refs", Observed: got, Expected: want}
	}
	// terminal condition and persistence
	errs := append([]error{obs.FirstErr}, obs.ExtraErrs...)
	if obs.ExtraBlk > 0 {
		id := "eof-persist"
		if faulty {
			id = "fault-persist"
		}
		return &Failure{Check: id, Observed: fmt.Sprintf("%d blocks were returned by calls made after the first error %v", obs.ExtraBlk, obs.FirstErr)}
	}
	for i, err := range errs {
		if !faulty {
			if err != io.EOF {
				id := "eof-persist"
				if i == 0 {
					id = "eof"
				}
				return &Failure{Check: id, Observed: fmt.Sprintf("call %d after the last block returned error %v", i, err), Expected: "io.EOF"}
			}
			continue
		}
		want := faultErr(rs.Fault.Err)
		ok := err != nil && errors.Is(err, want)
		if ok && want != io.EOF && !errors.Is(want, io.EOF) && err == io.EOF {
			ok = false
		}
		if !ok {
			id := "fault-persist"
			if i == 0 {
				id = "fault-err-identity"
			}
			return &Failure{Check: id, Observed: fmt.Sprintf("call %d after the last block returned error %v", i, err), Expected: fmt.Sprintf("an error wrapping %v", want)}
		}
	}
	return obs.CompModel
}

func errString(e error) string {
	if e == nil {
		return "<nil>"
	}
	return e.Error()
}
