package main

import (
	"sort"

	"verif/simrt"
)

type runStats struct {
	Evaluations  int
	Skipped      int
	Digests      map[uint64]struct{}
	Faults       map[string]int
	Probes       map[string]int
	Logical      map[string]int64
	MaxStepRatio float64
	Worst        *Scenario // the evaluation that came closest to its step budget
	Samples      []*Scenario
	Failures     []*Scenario
	Outcome      uint64 // digest of the event log of the last evaluation
	SchedDigests map[uint64]struct{}
	Triples      map[[3]uint32]struct{}
}

func newStats() *runStats {
	return &runStats{
		Digests: map[uint64]struct{}{}, Faults: map[string]int{}, Probes: map[string]int{},
		Logical: map[string]int64{}, SchedDigests: map[uint64]struct{}{}, Triples: map[[3]uint32]struct{}{},
	}
}

// workerOut is what a worker process hands back to the driver.
type workerOut struct {
	Phase        string
	Worker       int
	Evaluations  int
	Skipped      int
	Runs         int
	Digests      []uint64
	Faults       map[string]int
	Probes       map[string]int
	Logical      map[string]int64
	MaxStepRatio float64
	Worst        *Scenario
	Samples      []*Scenario
	Failures     []*Scenario
	SchedDigests []uint64
	Triples      [][3]uint32
	SitesHit     []uint32 // instrumented yield sites this worker executed (reach measure)
	LogDigest    uint64   // digest of the per-run event log (determinism self-test)
}

func (st *runStats) export(phase string, worker, runs int, logDigest uint64) *workerOut {
	o := &workerOut{Phase: phase, Worker: worker, Runs: runs, Evaluations: st.Evaluations, Skipped: st.Skipped,
		Faults: st.Faults, Probes: st.Probes, Logical: st.Logical, MaxStepRatio: st.MaxStepRatio, Worst: st.Worst,
		Samples: st.Samples, Failures: st.Failures, LogDigest: logDigest, SitesHit: simrt.Covered()}
	for d := range st.Digests {
		o.Digests = append(o.Digests, d)
	}
	sort.Slice(o.Digests, func(i, j int) bool { return o.Digests[i] < o.Digests[j] })
	for d := range st.SchedDigests {
		o.SchedDigests = append(o.SchedDigests, d)
	}
	sort.Slice(o.SchedDigests, func(i, j int) bool { return o.SchedDigests[i] < o.SchedDigests[j] })
	for t := range st.Triples {
		o.Triples = append(o.Triples, t)
	}
	sort.Slice(o.Triples, func(i, j int) bool {
		a, b := o.Triples[i], o.Triples[j]
		if a[0] != b[0] {
			return a[0] < b[0]
		}
		if a[1] != b[1] {
			return a[1] < b[1]
		}
		return a[2] < b[2]
	})
	return o
}
