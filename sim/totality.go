package main

import (
	"bytes"
	"fmt"
	"io"

	"verif/simrt"
	"zombiezen.com/go/commonmark"
)

type matcherFunc func(string) bool

func (f matcherFunc) MatchReference(l string) bool { return f(l) }

// stepBudget is B(n) of DESIGN §2.4.
func stepBudget(n int) uint64 {
	m := uint64(n + 64)
	return 1024 * m * m
}

type totObs struct {
	MaxStage   string // stage in which MaxRatio was measured
	MaxRatio   float64
	Steps      uint64
	Reads      int
	Writes     int
	Callbacks  int
	LimitHit   bool
	WriterFail int
	// MatcherPanics: Rewrite calls left by a panicking ReferenceMatcher (the
	// caller recovered and went on with the same InlineParser)
	MatcherPanics int
	ReaderFail    bool
	// HealthyAfterFailed: healthy Format/Render calls made after a call whose
	// writer had failed, in the same process
	HealthyAfterFailed int
}

// checkC04 runs every entry point over one document under one environment
// behaviour.  Phase "healthy": healthy reader and writer, real constants —
// clauses (a) no panic, (b) step budget, (c) only io.EOF / nil errors.
// Phases "faulty" and "limit": (a) and (b) only.
func checkC04(s *Scenario) (fail *Failure, obs *totObs) {
	obs = &totObs{}
	doc := s.Doc
	B := stepBudget(len(doc))
	stage := "init"
	defer simrt.SetBudget(0)
	cur := B
	begin := func(name string) {
		stage = name
		cur = B
		if name == "walk" {
			// the harness's own callbacks start up to 150 nested walks of up to
			// 112 callbacks each and its filtered / mixed views re-enumerate
			// children on every call: the walk stage legitimately costs a large
			// multiple of one traversal
			cur = 16 * B
		}
		simrt.SetBudget(cur)
	}
	end := func() {
		st := simrt.Steps()
		obs.Steps += st
		if r := float64(st) / float64(cur); r > obs.MaxRatio {
			obs.MaxRatio = r
			obs.MaxStage = stage
		}
	}
	fail = guard("panic", func() *Failure {
		healthy := s.Phase == "healthy"
		applyKnobs(s.Knobs)
		defer applyKnobs(nil)

		begin("parse")
		blocks, refs := commonmark.Parse(append([]byte(nil), doc...))
		end()

		begin("stream")
		sobs := runStream(doc, s.Reader)
		end()
		obs.Reads = sobs.Reader.Reads
		obs.ReaderFail = s.Reader.Fault.Kind == "error"
		if healthy {
			if sobs.FirstErr != io.EOF {
				return &Failure{Check: "eof-only", Observed: fmt.Sprintf("streaming parse with a healthy reader ended with %v", sobs.FirstErr), Expected: "io.EOF"}
			}
			for _, e := range sobs.ExtraErrs {
				if e != io.EOF {
					return &Failure{Check: "eof-only", Observed: fmt.Sprintf("a later NextBlock call returned %v", e), Expected: "io.EOF"}
				}
			}
		} else if sobs.FirstErr != nil && sobs.FirstErr != io.EOF && s.Reader.Fault.Kind != "error" {
			obs.LimitHit = true
		}

		// block-by-block parsing followed by inline rewriting under other
		// ReferenceMatcher configurations: nil (the zero InlineParser), and
		// caller-supplied matchers that answer always / never / by hash
		var alt [][]*commonmark.RootBlock
		// ... and a matcher that RE-ENTERS the library: while answering it parses
		// another small document through the very same InlineParser (a matcher
		// that loads definitions lazily would)
		var reentrantIP *commonmark.InlineParser
		reentered := 0
		reentrant := matcherFunc(func(l string) bool {
			if reentrantIP != nil && reentered < 6 {
				reentered++
				bp := commonmark.NewBlockParser(bytes.NewReader([]byte("[" + l + "] *nested* [x][y] `c`\n\n> [q]: /u\n")))
				for {
					b, err := bp.NextBlock()
					if err != nil {
						break
					}
					reentrantIP.Rewrite(b)
				}
			}
			return hashString(l)%3 != 0
		})
		// ... and a matcher that PANICS once (its k-th call): the caller recovers
		// outside Rewrite, gives up on that block and goes on rewriting the
		// remaining blocks through the same InlineParser - calls in which no
		// callback misbehaves and which therefore must not panic (scratch state
		// a change keeps on the parser and resets "at the end of parse" is left
		// dirty by the unwinding)
		type matcherBoom struct{}
		boomAt, boomCalls := 1+int(hashBytes(3, doc)%5), 0
		panicking := matcherFunc(func(l string) bool {
			boomCalls++
			if boomCalls == boomAt {
				panic(matcherBoom{})
			}
			return hashString(l)%3 != 1
		})
		for mi, m := range []commonmark.ReferenceMatcher{nil, matcherFunc(func(string) bool { return true }), matcherFunc(func(l string) bool { return hashString(l)%2 == 0 }), reentrant, panicking} {
			if (len(doc)+mi)%5 != 0 && !tierThorough {
				continue // one of the five per document in the quick tier
			}
			begin("rewrite-matcher")
			var bs []*commonmark.RootBlock
			bp := commonmark.NewBlockParser(bytes.NewReader(doc))
			for {
				b, err := bp.NextBlock()
				if err != nil {
					break
				}
				bs = append(bs, b)
			}
			ip := &commonmark.InlineParser{ReferenceMatcher: m}
			if mi == 3 {
				reentrantIP = ip
			}
			if mi == 4 {
				kept := bs[:0:0]
				for _, b := range bs {
					func() {
						defer func() {
							if r := recover(); r != nil {
								if _, ours := r.(matcherBoom); !ours {
									panic(r)
								}
								obs.MatcherPanics++
								return // the interrupted block is dropped, not rendered
							}
							kept = append(kept, b)
						}()
						ip.Rewrite(b)
					}()
				}
				bs = kept
			} else {
				for _, b := range bs {
					ip.Rewrite(b)
				}
			}
			end()
			alt = append(alt, bs)
		}
		trees := [][]*commonmark.RootBlock{blocks, sobs.Blocks}
		trees = append(trees, alt...)
		for ti, tree := range trees {
			rrefs := refs
			if ti == 1 {
				rrefs = sobs.Refs
			}
			if ti >= 2 && ti%2 == 0 {
				rrefs = nil // a renderer without a reference map
			}
			for ci := range s.Renders {
				begin("render")
				sw, w := newSimWriter(s.Writer)
				err := makeRenderer(&s.Renders[ci], rrefs).Render(w, tree)
				end()
				obs.Writes += sw.Calls
				if sw.Failed {
					obs.WriterFail++
				}
				if healthy && err != nil {
					return &Failure{Check: "render-err", Observed: fmt.Sprintf("Render (cfg %+v) on a healthy writer returned %v", s.Renders[ci], err)}
				}
			}
			begin("format")
			sw, w := newSimWriter(s.Writer)
			err := formatBlocks(w, tree)
			end()
			obs.Writes += sw.Calls
			if sw.Failed {
				obs.WriterFail++
			}
			if healthy && err != nil {
				return &Failure{Check: "format-err", Observed: fmt.Sprintf("Format on a healthy writer returned %v", err)}
			}
			// the remaining exported entry points, as a caller may use them: the
			// RenderHTML convenience function, AppendBlock into a nil / a short
			// dst, Walk with neither callback, Walk from every root block
			begin("render")
			sw2, w2 := newSimWriter(s.Writer)
			err2 := commonmark.RenderHTML(w2, tree, rrefs)
			obs.Writes += sw2.Calls
			if healthy && err2 != nil {
				return &Failure{Check: "render-err", Observed: fmt.Sprintf("RenderHTML on a healthy writer returned %v", err2)}
			}
			if len(s.Renders) > 0 {
				r0 := makeRenderer(&s.Renders[0], rrefs)
				var dst []byte
				for bi, b := range tree {
					if bi%2 == 0 {
						dst = nil
					} else {
						dst = make([]byte, 1, 2)
					}
					dst = r0.AppendBlock(dst, b)
				}
			}
			end()
			begin("walk")
			for _, b := range tree {
				commonmark.Walk(b.AsNode(), &commonmark.WalkOptions{})
			}
			end()
			if s.Walk != nil {
				begin("walk")
				v := makeView(s.Walk, tree)
				wobs := realWalk(v, s.Walk, tree, 0, 1<<40)
				end()
				obs.Callbacks += wobs.Callbacks
			}
			if !healthy && obs.WriterFail > 0 && s.Reader.Fault.Kind != "error" && !obs.LimitHit {
				// the writer of THIS call does not fail: whatever an earlier,
				// failed call left behind, rendering and formatting must report
				// no error now
				begin("format")
				_, hw := newSimWriter(nil)
				err := formatBlocks(hw, tree)
				end()
				if err != nil {
					return &Failure{Check: "format-err", Observed: fmt.Sprintf("Format on a healthy writer, after an earlier call's writer had failed, returned %v", err)}
				}
				if len(s.Renders) > 0 {
					begin("render")
					_, hw2 := newSimWriter(nil)
					err := makeRenderer(&s.Renders[0], rrefs).Render(hw2, tree)
					end()
					if err != nil {
						return &Failure{Check: "render-err", Observed: fmt.Sprintf("Render on a healthy writer, after an earlier call's writer had failed, returned %v", err)}
					}
				}
				obs.HealthyAfterFailed++
			}
		}
		return nil
	})
	if fail != nil {
		fail.Observed = "stage " + stage + ": " + fail.Observed
	}
	return fail, obs
}

// checkC04MemHuge: in-memory parsing, rendering, re-formatting and walking of
// a document with a root block above the STREAMING parser's block-size limit
// (Parse has none): no panic, no error with healthy writers.
func checkC04MemHuge(s *Scenario) *Failure {
	return guard("panic", func() *Failure {
		blocks, refs := commonmark.Parse(append([]byte(nil), s.Doc...))
		if len(blocks) < 3 {
			return &Failure{Check: "eof-only", Observed: fmt.Sprintf("Parse of a %d-byte document returned %d root blocks", len(s.Doc), len(blocks)), Expected: "start, the big block, end"}
		}
		if err := (&commonmark.HTMLRenderer{ReferenceMap: refs}).Render(io.Discard, blocks); err != nil {
			return &Failure{Check: "render-err", Observed: fmt.Sprintf("Render into io.Discard returned %v", err), Expected: "nil"}
		}
		if err := formatBlocks(io.Discard, blocks); err != nil {
			return &Failure{Check: "format-err", Observed: fmt.Sprintf("Format into io.Discard returned %v", err), Expected: "nil"}
		}
		n := 0
		for _, b := range blocks {
			commonmark.Walk(b.AsNode(), &commonmark.WalkOptions{Pre: func(*commonmark.Cursor) bool { n++; return true }})
		}
		if n < len(blocks) {
			return &Failure{Check: "panic", Observed: "Walk visited fewer nodes than there are root blocks"}
		}
		return nil
	})
}
