package main

import (
	"bufio"
	"bytes"
	"encoding/json"
	"flag"
	"fmt"
	"io"
	"os"
	"os/exec"
	"runtime"
	"runtime/debug"
	"strings"
	"sync/atomic"
	"syscall"

	"verif/simrt"
	"zombiezen.com/go/commonmark"
)

// raceLog captures the race detector's reports in-process: file descriptor 2
// is redirected to a file and its growth after a scenario is the verdict.
type raceLog struct {
	f    *os.File
	size int64
}

var theRaceLog *raceLog

func openRaceLog(path string) error {
	f, err := os.OpenFile(path, os.O_CREATE|os.O_RDWR|os.O_TRUNC, 0o644)
	if err != nil {
		return err
	}
	if err := syscall.Dup2(int(f.Fd()), 2); err != nil {
		return err
	}
	theRaceLog = &raceLog{f: f}
	return nil
}

// take returns what was written to stderr since the last call.
func (l *raceLog) take() string {
	if l == nil {
		return ""
	}
	st, err := l.f.Stat()
	if err != nil || st.Size() <= l.size {
		return ""
	}
	buf := make([]byte, st.Size()-l.size)
	n, _ := l.f.ReadAt(buf, l.size)
	l.size = st.Size()
	return string(buf[:n])
}

type schedObs struct {
	Switches   int
	Triples    [][3]uint32
	TaskSteps  []uint64
	Kinds      []string
	SoloSteps  []uint64
	RaceReport string
	Stalled    bool // finished free-running: a task blocked on a parked task
	Foreign    bool // finished without preemption: the library started goroutines of its own
	// ColdFallback: the fresh child process of the cold phase could not be
	// used (reason); the scenario was evaluated in the worker instead
	ColdFallback string
}

type taskEnv struct {
	arena      []byte // when non-nil: inputs[i] are adjacent sub-slices of it (capacity NOT clipped)
	arenaWant  []byte
	inputs     [][]byte
	docs       [][]byte
	shared     []*commonmark.RootBlock
	sharedRefs commonmark.ReferenceMap
	sharedR    *commonmark.HTMLRenderer
	// caller-held configuration values that several tasks use at once
	sharedIP   *commonmark.InlineParser
	sharedWO   *commonmark.WalkOptions
	walkStates [simrt.MaxTasks]sharedWalkState
}

// sharedWalkState is the per-task state behind the callbacks of the one
// *WalkOptions value that all "walk-shared" tasks pass to Walk.
type sharedWalkState struct {
	tape tapeReader
	root commonmark.Node
	sb   strings.Builder
	n    int
}

// soloTask is the index of the task being run alone (scheduler inactive).
var soloTask int

// taskGoids[i] is the goroutine id of task i of the scheduled run in progress.
// Only consulted when the run has gone free-running (simrt.FreeRunning), where
// "the task the scheduler released last" no longer identifies the caller.
var taskGoids [simrt.MaxTasks]atomic.Int64

func goid() int64 {
	var buf [64]byte
	n := runtime.Stack(buf[:], false)
	// "goroutine 123 [running]:..."
	var id int64
	for _, c := range buf[len("goroutine "):n] {
		if c < '0' || c > '9' {
			break
		}
		id = id*10 + int64(c-'0')
	}
	return id
}

func curTask() int {
	if simrt.FreeRunning() {
		g := goid()
		for i := range taskGoids {
			if taskGoids[i].Load() == g {
				return i
			}
		}
		return soloTask
	}
	if t := simrt.Current(); t >= 0 {
		return t
	}
	return soloTask
}

func (env *taskEnv) sharedWalkCallback(post bool) func(c *commonmark.Cursor) bool {
	site := uint32(sitePre)
	if post {
		site = sitePost
	}
	return func(c *commonmark.Cursor) bool {
		st := &env.walkStates[curTask()]
		simrt.Yield(site)
		ev := walkEvent{post, c.Node(), c.Parent(), c.ParentBlock(), c.Index()}
		st.sb.WriteString(describeEvent(ev))
		if c.Node() == st.root {
			if c.Parent() != (commonmark.Node{}) || c.Index() >= 0 {
				st.sb.WriteString("!ROOT-CURSOR")
			}
		} else if p := c.Parent(); p == (commonmark.Node{}) || c.Index() < 0 || c.Index() >= p.ChildCount() || p.Child(c.Index()) != c.Node() {
			st.sb.WriteString("!CURSOR")
		}
		st.sb.WriteByte(';')
		st.n++
		if st.n > 1<<20 {
			panic("walk-shared: callback overrun")
		}
		return st.tape.next()
	}
}

// taskBody returns a function that performs the task and returns its
// observable result as a string.  Every call builds fresh per-run state.
func taskBody(env *taskEnv, t *TaskScn) func() string {
	doc := env.docs[t.Doc%len(env.docs)]
	input := func() []byte {
		if env.arena != nil {
			return env.inputs[t.Doc%len(env.docs)]
		}
		return append([]byte(nil), doc...)
	}
	switch t.Kind {
	case "parse":
		return func() string {
			blocks, refs := commonmark.Parse(input())
			return snapAll(blocks) + "REFS\n" + snapRefs(refs)
		}
	case "parse-keep-inner":
		// a caller that keeps only INNER nodes of what it parsed (the children
		// of the root blocks and the Source they index into) and drops the
		// root blocks themselves; a collection - finalizers included - runs at
		// that instant, the other tasks get their turns, and only then are the
		// kept subtrees read.  Whatever is reachable from a kept node must stay
		// what it was (storage a change recycles once "the document" - its
		// roots - is unreachable is taken over by the other tasks' parses).
		return func() string {
			type keptNode struct {
				n   commonmark.Node
				src []byte
			}
			var keep []keptNode
			func() {
				blocks, _ := commonmark.Parse(input())
				for _, rb := range blocks {
					for i := 0; i < rb.ChildCount(); i++ {
						keep = append(keep, keptNode{rb.Child(i), rb.Source})
					}
				}
			}()
			simrt.Yield(siteGC)
			collect()
			for i := 0; i < 12; i++ {
				simrt.Yield(siteGC)
			}
			var sb strings.Builder
			for _, k := range keep {
				src := k.src
				commonmark.Walk(k.n, &commonmark.WalkOptions{Pre: func(c *commonmark.Cursor) bool {
					simrt.Yield(sitePre)
					inspectNode(&sb, src, c.Node())
					return true
				}})
				sb.WriteByte('/')
			}
			return sb.String()
		}
	case "parse-render":
		return func() string {
			blocks, refs := commonmark.Parse(input())
			sw, w := newSimWriter(nil)
			err := makeRenderer(t.Render, refs).Render(w, blocks)
			return snapAll(blocks) + fmt.Sprintf("HTML err=%v\n%s", err, sw.Buf)
		}
	case "walk-shared":
		return func() string {
			me := curTask()
			st := &env.walkStates[me]
			*st = sharedWalkState{tape: tapeReader{tape: t.Walk.Tape, skip: t.Walk.TapeSkip}}
			if len(env.shared) > 0 {
				st.root = env.shared[t.Walk.Block%len(env.shared)].AsNode()
			}
			func() {
				defer func() {
					if r := recover(); r != nil {
						if _, ok := r.(walkCallbackPanic); !ok {
							panic(r)
						}
						st.sb.WriteString("UNWOUND")
					}
				}()
				commonmark.Walk(st.root, env.sharedWO)
			}()
			return st.sb.String()
		}
	case "stream-std":
		// block-by-block parsing from a STANDARD-LIBRARY reader value that sits
		// directly on the task's input (in arena scenarios a sub-slice whose
		// spare capacity is the next task's document): whatever a callee does
		// with the memory behind a reader type it recognises, it must not write
		// to it, and must not read beyond the reader's end
		return func() string {
			in := input()
			var rd io.Reader
			switch (t.Doc + len(in)) % 4 {
			case 0, 1:
				rd = bytes.NewBuffer(in)
			case 2:
				rd = bytes.NewReader(in)
			default:
				rd = bufio.NewReaderSize(bytes.NewBuffer(in), 16+len(in)%300)
			}
			p := commonmark.NewBlockParser(rd)
			var blocks []*commonmark.RootBlock
			refs := make(commonmark.ReferenceMap)
			var last error
			for len(blocks) <= 4*len(in)+16 {
				b, err := p.NextBlock()
				if err != nil {
					last = err
					break
				}
				blocks = append(blocks, b)
				refs.Extract(b.Source, b.AsNode())
			}
			ip := &commonmark.InlineParser{ReferenceMatcher: refs}
			for _, b := range blocks {
				ip.Rewrite(b)
			}
			return snapAll(blocks) + "REFS\n" + snapRefs(refs) + fmt.Sprintf("ERR %v", last)
		}
	case "stream-shared-ip":
		return func() string {
			obs := runStreamWith(doc, t.Reader, env.sharedIP)
			return snapAll(obs.Blocks) + fmt.Sprintf("ERR %v %v stable=%q", obs.FirstErr, obs.ExtraErrs, obs.Stable)
		}
	case "stream":
		return func() string {
			obs := runStream(doc, t.Reader)
			return snapAll(obs.Blocks) + "REFS\n" + snapRefs(obs.Refs) + fmt.Sprintf("ERR %v %v stable=%q", obs.FirstErr, obs.ExtraErrs, obs.Stable)
		}
	case "render":
		return func() string {
			r := env.sharedR
			if !t.Render.Shared {
				r = makeRenderer(t.Render, env.sharedRefs)
			}
			sw, w := newSimWriter(t.Writer)
			err := r.Render(w, env.shared)
			return fmt.Sprintf("err=%v\n%s", err, sw.Buf)
		}
	case "render-html":
		// the convenience entry point most callers use (it builds its renderer
		// itself), plus the exported helpers a caller may use directly on
		// strings taken from the shared tree
		return func() string {
			sw, w := newSimWriter(t.Writer)
			err := commonmark.RenderHTML(w, env.shared, env.sharedRefs)
			var sb strings.Builder
			fmt.Fprintf(&sb, "err=%v\n%s\n", err, sw.Buf)
			for _, k := range sortedRefKeys(env.sharedRefs) {
				d := env.sharedRefs[k].Destination
				simrt.Yield(siteFilter)
				fmt.Fprintf(&sb, "%q>%q e%v g%v|", d, commonmark.NormalizeURI(d), commonmark.IsEmailAddress(d), commonmark.FilterTagGFM([]byte(k)))
			}
			return sb.String()
		}
	case "append":
		return func() string {
			r := env.sharedR
			if !t.Render.Shared {
				r = makeRenderer(t.Render, env.sharedRefs)
			}
			var out []byte
			for _, b := range env.shared {
				out = r.AppendBlock(out, b)
				out = append(out, '|')
			}
			return string(out)
		}
	case "format":
		return func() string {
			sw, w := newSimWriter(t.Writer)
			err := formatBlocks(w, env.shared)
			return fmt.Sprintf("err=%v\n%s", err, sw.Buf)
		}
	case "gc":
		// not a library call at all: the garbage collector runs (three times)
		// at whatever instants the switch list gives this task its turns -
		// pools are emptied and finalizers run in the middle of the other
		// tasks' parses and renders
		return func() string {
			for i := 0; i < 3; i++ {
				simrt.Yield(siteGC)
				runtime.GC()
				simrt.Yield(siteGC)
			}
			return "gc"
		}
	case "inspect":
		// a reader of the shared tree: walks it and reads every node through
		// every public accessor, as a caller's own renderer or linter would
		return func() string {
			var sb strings.Builder
			for _, rb := range env.shared {
				src := rb.Source
				commonmark.Walk(rb.AsNode(), &commonmark.WalkOptions{Pre: func(c *commonmark.Cursor) bool {
					simrt.Yield(sitePre)
					inspectNode(&sb, src, c.Node())
					return true
				}})
			}
			for _, k := range sortedRefKeys(env.sharedRefs) {
				d := env.sharedRefs[k]
				fmt.Fprintf(&sb, "ref %q %q %q %v|", k, d.Destination, d.Title, d.TitlePresent)
				if !env.sharedRefs.MatchReference(k) {
					sb.WriteString("NOMATCH|")
				}
			}
			return sb.String()
		}
	case "walk":
		return func() string {
			v := makeView(t.Walk, env.shared)
			obs := realWalk(v, t.Walk, env.shared, 1<<20, 1<<40)
			return histDigest(obs.Hist) + obs.CursorFail + obs.NestedFail
		}
	}
	panic("unknown task kind " + t.Kind)
}

func protect(f func() string) (out string) {
	defer func() {
		if r := recover(); r != nil {
			if be, ok := r.(simrt.BudgetExceeded); ok {
				out = fmt.Sprintf("STEP-BUDGET exceeded (%d)", be.Steps)
				return
			}
			out = "PANIC: " + fmt.Sprint(r) + "\n" + trunc(string(debug.Stack()), 4000)
		}
	}()
	return f()
}

func buildTaskEnv(s *Scenario) (*taskEnv, bool) {
	env := &taskEnv{docs: s.Docs}
	if len(env.docs) == 0 {
		env.docs = [][]byte{s.Doc}
	}
	var ok bool
	env.shared, env.sharedRefs, ok = safeParse(env.docs[0])
	if !ok {
		return nil, false
	}
	rs := s.Render
	if rs == nil {
		rs = &RenderScn{Filter: "nil"}
	}
	env.sharedR = makeRenderer(rs, env.sharedRefs)
	env.sharedIP = &commonmark.InlineParser{ReferenceMatcher: env.sharedRefs}
	env.sharedWO = &commonmark.WalkOptions{Pre: env.sharedWalkCallback(false), Post: env.sharedWalkCallback(true)}
	if s.Arena {
		// one backing array holding every document back to back; a task's input
		// is a plain sub-slice, so its spare capacity IS the next document
		for _, d := range env.docs {
			env.arena = append(env.arena, d...)
		}
		env.arena = append(env.arena, "\n\nTAIL-SENTINEL\n"...)
		env.arenaWant = append([]byte(nil), env.arena...)
		off := 0
		for _, d := range env.docs {
			env.inputs = append(env.inputs, env.arena[off:off+len(d)])
			off += len(d)
		}
	}
	return env, true
}

// soloRun runs every task alone (scheduler inactive) and returns results and
// the yield steps each took.
func soloRun(env *taskEnv, tasks []TaskScn) ([]string, []uint64) {
	res := make([]string, len(tasks))
	steps := make([]uint64, len(tasks))
	for i := range tasks {
		soloTask = i
		body := taskBody(env, &tasks[i])
		simrt.SetBudget(0)
		res[i] = protect(body)
		steps[i] = simrt.Steps()
	}
	return res, steps
}

// checkC19 executes one interleaving scenario.
func checkC19(s *Scenario) (*Failure, *schedObs) {
	obs := &schedObs{}
	env, ok := buildTaskEnv(s)
	if !ok {
		return nil, obs
	}
	if len(s.Tasks) == 0 {
		return nil, obs
	}
	// Order matters: the interleaved run comes FIRST and works on a tree that
	// nothing has touched, so state that is written lazily on first use (a memo
	// inside the tree, a package-level cache miss, a scratch buffer grown once
	// per process) is first touched by concurrent tasks, as in a server.  The
	// two sequential reference runs follow, each on its own freshly parsed tree.
	theRaceLog.take() // discard anything earlier sequential code produced (cannot be cross-task)
	results := make([]string, len(s.Tasks))
	bodies := make([]func(), len(s.Tasks))
	for i := range s.Tasks {
		i := i
		body := taskBody(env, &s.Tasks[i])
		bodies[i] = func() {
			taskGoids[i].Store(goid())
			results[i] = protect(body)
		}
		obs.Kinds = append(obs.Kinds, s.Tasks[i].Kind)
	}
	taskBudget := uint64(0)
	for _, d := range env.docs {
		if b := 32 * stepBudget(len(d)); b > taskBudget {
			taskBudget = b
		}
	}
	stalls0, foreign0 := simrt.Stalls(), simrt.ForeignRuns()
	res := simrt.Run(bodies, s.Switches, taskBudget)
	obs.Stalled, obs.Foreign = simrt.Stalls() > stalls0, simrt.ForeignRuns() > foreign0
	obs.Switches = res.Switches
	obs.Triples = res.Preempt
	obs.TaskSteps = res.TaskSteps
	report := theRaceLog.take()
	sharedAfter := snapAll(env.shared)
	arenaTouched := env.arena != nil && string(env.arena) != string(env.arenaWant)

	env1, ok1 := buildTaskEnv(s)
	env2, ok2 := buildTaskEnv(s)
	if !ok1 || !ok2 {
		return &Failure{Check: "sequential-nondeterminism", Observed: "Parse of the shared document panicked on a repeated call"}, obs
	}
	sharedBefore := snapAll(env1.shared)
	solo1, steps1 := soloRun(env1, s.Tasks)
	solo2, _ := soloRun(env2, s.Tasks)
	obs.SoloSteps = steps1
	for i := range solo1 {
		if solo1[i] != solo2[i] {
			return &Failure{Check: "sequential-nondeterminism", Observed: fmt.Sprintf("task %d (%s) gave two different results when run alone twice: %s", i, s.Tasks[i].Kind, firstDiff(solo1[i], solo2[i]))}, obs
		}
	}
	if a := snapAll(env1.shared); a != sharedBefore {
		return &Failure{Check: "shared-tree-touched", Observed: "by a sequential run: " + firstDiff(sharedBefore, a)}, obs
	}
	theRaceLog.take()

	var fails []*Failure
	if strings.Contains(report, "DATA RACE") {
		obs.RaceReport = report
		fails = append(fails, &Failure{Check: "race", Observed: raceSummary(report), Stack: trunc(report, 6000)})
	}
	for i := range results {
		if strings.HasPrefix(results[i], "PANIC: ") && !strings.HasPrefix(solo1[i], "PANIC: ") {
			fails = append(fails, &Failure{Check: "panic", Observed: fmt.Sprintf("task %d (%s) panicked only when interleaved: %s", i, s.Tasks[i].Kind, trunc(results[i], 3000))})
			break
		}
	}
	for i := range results {
		if results[i] != solo1[i] {
			fails = append(fails, &Failure{Check: "result", Observed: fmt.Sprintf("task %d (%s): %s", i, s.Tasks[i].Kind, firstDiff(results[i], solo1[i])), Expected: trunc(solo1[i], 1500)})
			break
		}
	}
	if sharedAfter != sharedBefore {
		fails = append(fails, &Failure{Check: "shared-tree-touched", Observed: firstDiff(sharedBefore, sharedAfter)})
	}
	if arenaTouched {
		fails = append(fails, &Failure{Check: "input-mutated", Observed: "Parse wrote into its caller's backing array (a neighbouring document): " + firstDiff(string(env.arenaWant), string(env.arena))})
	}
	if len(fails) == 0 {
		return nil, obs
	}
	for _, f := range fails[1:] {
		fails[0].Also = append(fails[0].Also, f.Check)
	}
	return fails[0], obs
}

// raceSummary extracts the two stack tops of the first report.
func raceSummary(report string) string {
	lines := strings.Split(report, "\n")
	var tops []string
	for i, l := range lines {
		t := strings.TrimSpace(l)
		if (strings.HasPrefix(t, "Read at") || strings.HasPrefix(t, "Write at") || strings.HasPrefix(t, "Previous read at") || strings.HasPrefix(t, "Previous write at")) && i+1 < len(lines) {
			kind := strings.Fields(t)[0]
			if strings.HasPrefix(t, "Previous") {
				kind = "Previous " + strings.Fields(t)[1]
			}
			fn := strings.TrimSpace(lines[i+1])
			loc := ""
			if i+2 < len(lines) {
				loc = strings.TrimSpace(lines[i+2])
				if j := strings.LastIndex(loc, "/"); j >= 0 {
					loc = loc[j+1:]
				}
				if j := strings.Index(loc, " "); j >= 0 {
					loc = loc[:j]
				}
			}
			tops = append(tops, kind+" in "+fn+" ("+loc+")")
			if len(tops) == 2 {
				break
			}
		}
	}
	return "DATA RACE: " + strings.Join(tops, " / ")
}

// ---- cold evaluation: one scenario per fresh process ---------------------

var coldChild bool // this process evaluates cold scenarios directly

type coldResult struct {
	Fail *Failure
	Obs  *schedObs
}

// runColdChild evaluates s in a fresh process, so that process-wide state
// (package-level caches and scratch buffers) is cold when the interleaved run
// starts.
func runColdChild(s *Scenario) (*Failure, *schedObs) {
	// Trouble with the child process itself (no scratch space, fork failure,
	// unreadable output) is never the library's doing: the scenario is then
	// evaluated in this process instead (warm), and counted.
	fallback := func(why string) (*Failure, *schedObs) {
		f, obs := checkC19(s)
		if obs == nil {
			obs = &schedObs{}
		}
		obs.ColdFallback = why
		return f, obs
	}
	dir := os.Getenv("VERIF_SCRATCH_DIR")
	if dir == "" {
		dir = os.TempDir()
	}
	f, err := os.CreateTemp(dir, "cold-*.json")
	if err != nil {
		return fallback("temp file: " + err.Error())
	}
	name := f.Name()
	f.Close()
	defer os.Remove(name)
	defer os.Remove(name + ".racelog")
	if err := writeScenario(name, s); err != nil {
		return fallback("write scenario: " + err.Error())
	}
	var out []byte
	for attempt := 0; attempt < 2; attempt++ {
		cmd := exec.Command(os.Args[0], "cold", "-nsites", fmt.Sprint(nSites), "-racelog", name+".racelog", name)
		cmd.Env = os.Environ()
		out, err = cmd.Output()
		if err == nil {
			break
		}
	}
	if err != nil {
		return fallback("child: " + err.Error())
	}
	var r coldResult
	if err := json.Unmarshal(out, &r); err != nil {
		return fallback("child output: " + err.Error())
	}
	if r.Obs == nil {
		r.Obs = &schedObs{}
	}
	return r.Fail, r.Obs
}

func coldMain(args []string) {
	fs := flag.NewFlagSet("cold", flag.ExitOnError)
	nsites := fs.Int("nsites", 0, "")
	racelog := fs.String("racelog", "", "")
	fs.Parse(args)
	setupProcess(*nsites, *racelog)
	coldChild = true
	s, err := readScenario(fs.Arg(0))
	if err != nil {
		die("%v", err)
	}
	f, obs := checkC19(s)
	obs.RaceReport = trunc(obs.RaceReport, 200)
	b, _ := json.Marshal(coldResult{f, obs})
	os.Stdout.Write(b)
}
