package main

import (
	"bytes"
	_ "embed"
	"encoding/base64"
	"encoding/json"
	"strconv"
	"strings"
)

//go:embed corpus/docs.json
var corpusJSON []byte

type corpusDoc struct {
	Name string
	Data []byte
}

var corpus []corpusDoc

func itoa(n int) string { return strconv.Itoa(n) }

func loadCorpus() {
	if corpus != nil {
		return
	}
	var raw []struct {
		Name string `json:"name"`
		B64  string `json:"b64"`
	}
	if err := json.Unmarshal(corpusJSON, &raw); err != nil {
		panic(err)
	}
	for _, r := range raw {
		b, err := base64.StdEncoding.DecodeString(r.B64)
		if err != nil {
			panic(err)
		}
		corpus = append(corpus, corpusDoc{r.Name, b})
	}
}

// genDoc derives one workload document.  maxLen bounds its size.
func genDoc(r *Rng, maxLen int) []byte {
	loadCorpus()
	var doc []byte
	switch x := r.Intn(100); {
	case x < 42:
		doc = append(doc, corpus[r.Intn(len(corpus))].Data...)
	case x < 70:
		doc = compose(r, r.Range(1, 6))
	case x < 78:
		doc = classLines(r)
	case x < 86:
		doc = soup(r)
	case x < 92:
		// concatenation of 2-4 documents, with or without blank lines
		n := r.Range(2, 4)
		for i := 0; i < n; i++ {
			var part []byte
			if r.Chance(0.5) {
				part = corpus[r.Intn(len(corpus))].Data
			} else {
				part = compose(r, r.Range(1, 3))
			}
			if len(part) > maxLen/2 {
				part = part[:maxLen/2]
			}
			doc = append(doc, part...)
			switch r.Intn(4) {
			case 0:
				doc = append(doc, '\n')
			case 1:
				doc = append(doc, "\n\n"...)
			case 2:
				doc = append(doc, " \n\t\n"...)
			}
		}
	case x < 96:
		doc = deepNest(r)
	case x < 98:
		doc = cardinality(r)
	case x < 99:
		doc = refdefTabs(r)
	default:
		doc = classLines(r)
	}
	doc = derive(r, doc)
	if len(doc) > maxLen {
		doc = doc[:maxLen]
	}
	return doc
}

// genDocMany: with probability p a document of hundreds of root blocks (a
// threshold on the NUMBER of blocks - a parser that completes large documents
// in batches or in parallel - is out of reach of documents of a few blocks;
// not cut at maxLen), otherwise genDoc.
func genDocMany(r *Rng, maxLen int, p float64) []byte {
	if r.Chance(p) {
		return derive(r, manyBlocks(r))
	}
	return genDoc(r, maxLen)
}

// derive applies seeded byte-level derivations.
func derive(r *Rng, doc []byte) []byte {
	if r.Chance(0.40) {
		doc = lineEndings(r, doc)
	}
	if r.Chance(0.22) {
		// NUL runs of length 1-4
		n := r.Range(1, 3)
		for i := 0; i < n; i++ {
			at := r.Intn(len(doc) + 1)
			run := bytes.Repeat([]byte{0}, r.Range(1, 4))
			doc = insertAt(doc, at, run)
		}
	}
	if r.Chance(0.12) && len(doc) > 0 {
		// invalid UTF-8: 0xff, lone continuation bytes, truncated sequences
		n := r.Range(1, 3)
		for i := 0; i < n; i++ {
			at := r.Intn(len(doc))
			switch r.Intn(4) {
			case 0:
				doc[at] = 0xff
			case 1:
				doc[at] = 0x80 + byte(r.Intn(0x40))
			case 2:
				doc = insertAt(doc, at, []byte{0xe2, 0x82})
			default:
				doc = insertAt(doc, at, []byte{0xc0})
			}
		}
	}
	if r.Chance(0.15) {
		// multi-byte characters (also Unicode whitespace / punctuation)
		runes := []string{"\u00e9", "\u20ac", "\U0001d11e", "\u00a0", "\u2003", "\u201c", "\u201d", "\u2014", "\u00df", "\u0130", "\u01c5", "\ufeff", "\u3000"}
		n := r.Range(1, 4)
		for i := 0; i < n; i++ {
			doc = insertAt(doc, r.Intn(len(doc)+1), []byte(r.Pick(runes)))
		}
	}
	if r.Chance(0.12) && len(doc) > 0 {
		n := r.Range(1, 3)
		for i := 0; i < n; i++ {
			at := r.Intn(len(doc))
			if doc[at] == ' ' {
				doc[at] = '\t'
			} else {
				doc = insertAt(doc, at, []byte{'\t'})
			}
		}
	}
	if r.Chance(0.10) {
		// upper-case tag names (the renderer lower-cases them into a scratch buffer)
		for i := 0; i+1 < len(doc); i++ {
			if doc[i] == '<' {
				j := i + 1
				if doc[j] == '/' {
					j++
				}
				for ; j < len(doc) && (doc[j] >= 'a' && doc[j] <= 'z' || doc[j] >= 'A' && doc[j] <= 'Z'); j++ {
					if r.Chance(0.7) && doc[j] >= 'a' {
						doc[j] -= 'a' - 'A'
					}
				}
			}
		}
	}
	if r.Chance(0.10) {
		// bytes that other Markdown implementations treat as blank: a line made of
		// form feeds, vertical tabs, NEL, NBSP, U+2028 ... between lines, or such a
		// byte next to a line ending
		pseudo := []string{"\f", "\v", "\f\v ", " \f", "\x1c", "\x1f", "\u0085", "\u00a0", "\u2028", "\u2029", "\u200b", "\x7f", "\x01"}
		n := r.Range(1, 3)
		for i := 0; i < n; i++ {
			at := r.Intn(len(doc) + 1)
			// move to the next line start
			for at < len(doc) && at > 0 && doc[at-1] != '\n' && doc[at-1] != '\r' {
				at++
			}
			ins := r.Pick(pseudo)
			if r.Chance(0.7) {
				ins += "\n"
			}
			if r.Chance(0.4) {
				ins = "\n" + ins
			}
			doc = insertAt(doc, at, []byte(ins))
		}
	}
	if r.Chance(0.15) && len(doc) > 1 {
		doc = doc[:r.Intn(len(doc))]
	}
	if r.Chance(0.06) {
		// a LONG run of blank lines (10-400 bytes; longer than many whole
		// blocks) at 1-2 line starts, at the start or at the end: gaps between
		// root blocks are the one part of the input that belongs to no block
		n := r.Range(1, 2)
		for i := 0; i < n; i++ {
			at := r.Intn(len(doc) + 1)
			for at < len(doc) && at > 0 && doc[at-1] != '\n' && doc[at-1] != '\r' {
				at++
			}
			var run []byte
			want := []int{10, 20, 40, 70, 130, 400}[r.Intn(6)]
			unit := r.Pick([]string{"\n", "\n", "\r\n", "\r", " \n", "\t\n", "  \r\n", "mix"})
			for len(run) < want {
				u := unit
				if u == "mix" {
					u = r.Pick([]string{"\n", "\r\n", "\r", " \n", "\t\n", "   \n"})
				}
				run = append(run, u...)
			}
			if at > 0 && doc[at-1] != '\n' && doc[at-1] != '\r' {
				run = append([]byte("\n"), run...)
			}
			doc = insertAt(doc, at, run)
		}
	}
	if r.Chance(0.08) {
		// leading / trailing blank material
		pre := []string{"\n", "\n\n", " \n", "\r\n", "\t\n\n", "\r"}
		if r.Chance(0.5) {
			doc = append([]byte(r.Pick(pre)), doc...)
		} else {
			doc = append(doc, r.Pick(pre)...)
		}
	}
	return doc
}

func insertAt(doc []byte, at int, ins []byte) []byte {
	out := make([]byte, 0, len(doc)+len(ins))
	out = append(out, doc[:at]...)
	out = append(out, ins...)
	out = append(out, doc[at:]...)
	return out
}

func lineEndings(r *Rng, doc []byte) []byte {
	mode := r.Intn(4) // 0 CRLF, 1 CR, 2 mixed, 3 mixed with LFCR
	var out []byte
	for _, c := range doc {
		if c != '\n' {
			out = append(out, c)
			continue
		}
		m := mode
		if mode >= 2 {
			m = r.Intn(3)
		}
		switch m {
		case 0:
			out = append(out, '\r', '\n')
		case 1:
			out = append(out, '\r')
		default:
			out = append(out, '\n')
			if mode == 3 && r.Chance(0.2) {
				out = append(out, '\r')
			}
		}
	}
	return out
}

var inlineFrags = []string{
	"plain words here", "*emph*", "**strong**", "_under_ score", "***both***", "`code`", "``a`b``",
	"`unterminated", "``", "[link](/url \"title\")", "[link](/url 'T')", "[link](<a b> (t))", "[ref][foo]", "[foo]", "[foo][]",
	"[Foo Bar]", "![img](/i.png)", "![alt][foo]", "<http://example.com/a?b=c>", "<me@example.com>",
	"<span class=\"x\">", "</span>", "<!-- c -->", "<?php ?>", "<![CDATA[x]]>", "<!DOCTYPE x>", "&amp;", "&#35;", "&#x22;", "&nosuch;",
	"\\*not\\*", "\\", "a  ", "a\\", "[](", "[a](b", "[a]: not def", "*a **b* c**", "__a__b__", "a * b * c",
	"<a href=\"x\"", "<script>x</script>", "[x](/u\\)y)", "[r](/100%_done.txt)", "<http://x/?q=%GG>", "[p](/%5B%zz%2G%)", "<b>", "trailing\\", "x`y``z`", "[[nested]](/u)", "![[a]](/u)",
	"&copy;", "\t tab", "<DIV>", "<Script>x</Script>", "<TITLE>t</TITLE>", "<TextArea>", "</XMP>", "<IFRAME src=x>", "<Style>", "<NoEmbed>", "<A HREF=\"x\">", "<PlainText>", "**", "_", "[", "]", "![", "<", ">", "1. x", "- y", "# z", "> q", "```", "~~~", "---", "===",
}

var refLabels = []string{"foo", "Foo Bar", "bar", "\u1e9e", "a b", "x", "\u00dcn\u00efc\u00f6d\u00e9", "\u0391\u0393\u03a9", "stra\u00dfe", "\u0130stanbul"}

func inlineText(r *Rng) string {
	n := r.Range(1, 4)
	var sb strings.Builder
	for i := 0; i < n; i++ {
		if i > 0 {
			sb.WriteByte(' ')
		}
		sb.WriteString(r.Pick(inlineFrags))
	}
	return sb.String()
}

// compose builds a document from block fragments; containers nest other
// fragments, so multi-line in-flight constructs and paragraphs that close
// into several reference definitions occur often.
func compose(r *Rng, nblocks int) []byte {
	var lines []string
	for i := 0; i < nblocks; i++ {
		lines = append(lines, blockFrag(r, 0)...)
		switch r.Intn(5) {
		case 0, 1, 2:
			lines = append(lines, "")
		case 3:
			lines = append(lines, "", "  ", "")
		}
	}
	s := strings.Join(lines, "\n")
	if r.Chance(0.8) {
		s += "\n"
	}
	return []byte(s)
}

func blockFrag(r *Rng, depth int) []string {
	x := r.Intn(100)
	if depth >= 3 && x >= 70 {
		x = r.Intn(70)
	}
	switch {
	case x < 18: // paragraph
		n := r.Range(1, 3)
		var out []string
		for i := 0; i < n; i++ {
			l := inlineText(r)
			if i < n-1 {
				switch r.Intn(6) {
				case 0:
					l += "  "
				case 1:
					l += "\\"
				}
			}
			if i > 0 && r.Chance(0.2) {
				l = strings.Repeat(" ", r.Range(1, 6)) + l
			}
			out = append(out, l)
		}
		return out
	case x < 24:
		return []string{strings.Repeat("#", r.Range(1, 7)) + " " + inlineText(r) + r.Pick([]string{"", " #", " ##  ", "#"})}
	case x < 28:
		return []string{inlineText(r), r.Pick([]string{"===", "---", "=", "-", "  ----  "})}
	case x < 31:
		return []string{r.Pick([]string{"***", "---", "___", " * * *", "- - -"})}
	case x < 38: // fenced code
		f := r.Pick([]string{"```", "~~~", "````", "  ```"})
		out := []string{f + r.Pick([]string{"", "go", " info string", "a&amp;b", "x`"})}
		n := r.Range(0, 3)
		for i := 0; i < n; i++ {
			out = append(out, r.Pick([]string{"code line", "  indented", "", "```not", "<b>&", "\ttab"}))
		}
		if r.Chance(0.7) {
			out = append(out, strings.TrimSpace(f))
		}
		return out
	case x < 42: // indented code
		n := r.Range(1, 3)
		var out []string
		for i := 0; i < n; i++ {
			out = append(out, r.Pick([]string{"    ", "\t", "  \t", "     "})+r.Pick([]string{"code", "x y", "<tag>", ""}))
		}
		return out
	case x < 49: // HTML blocks
		switch r.Intn(9) {
		case 0:
			return []string{"<script>", "var x = '*a*';", "", "</script> tail"}
		case 1:
			return []string{"<!-- comment", "", "still -->", "para"}
		case 2:
			return []string{"<?php", "echo 1;", "?>"}
		case 3:
			return []string{"<!DOCTYPE html>"}
		case 4:
			return []string{"<![CDATA[", "x", "]]>"}
		case 5:
			return []string{"<div class=\"a\">", "*text*", "</div>"}
		case 6:
			return []string{r.Pick([]string{"<TITLE>", "<XMP>", "<Style>", "<IFRAME>", "<NOFRAMES>", "<Textarea>"}), "*x* <Script>y", r.Pick([]string{"</TITLE>", "</xmp>", "</STYLE>", ""})}
		case 7:
			return []string{"<DIV CLASS=\"a\">", "<P>text <B>b</B>", "</DIV>"}
		default:
			return []string{"<a href=\"x\">", "b"}
		}
	case x < 62: // link reference definitions
		n := r.Range(1, 4)
		var out []string
		if r.Chance(0.3) {
			out = append(out, inlineText(r))
			out = nil // a preceding paragraph line would swallow the definition; keep pure
		}
		for i := 0; i < n; i++ {
			lab := r.Pick(refLabels)
			if r.Chance(0.3) {
				lab = strings.ToUpper(lab)
			}
			switch r.Intn(6) {
			case 0:
				out = append(out, "["+lab+"]: /url"+itoa(i))
			case 1:
				out = append(out, "["+lab+"]: /url"+itoa(i)+" \"title "+itoa(i)+"\"")
			case 2:
				out = append(out, "["+lab+"]:", "  /url"+itoa(i), "  'multi", "  line title'")
			case 3:
				out = append(out, "["+lab+"]: <u r l> (paren title)")
			case 4:
				out = append(out, "["+lab+"]: /u 'T' trailing junk")
			default:
				out = append(out, "["+lab+"]: /url &amp; \"a\\\"b\"")
			}
		}
		if r.Chance(0.5) {
			out = append(out, inlineText(r))
		}
		return out
	case x < 76: // block quote
		inner := nestFrags(r, depth+1, r.Range(1, 3))
		pfx := r.Pick([]string{"> ", ">", " > ", ">  ", ">\t"})
		lazy := r.Chance(0.25)
		var out []string
		for i, l := range inner {
			if lazy && i > 0 && l != "" && r.Chance(0.5) {
				out = append(out, l)
			} else {
				out = append(out, strings.TrimRight(pfx+l, " ")+trailing(l))
			}
		}
		return out
	default: // list
		ordered := r.Chance(0.4)
		loose := r.Chance(0.4)
		items := r.Range(1, 3)
		start := r.Pick([]string{"1", "0", "7", "123456789", "003"})
		bullet := r.Pick([]string{"-", "+", "*"})
		delim := r.Pick([]string{".", ")"})
		var out []string
		for it := 0; it < items; it++ {
			marker := bullet
			if ordered {
				marker = start + delim
			}
			sp := r.Pick([]string{" ", " ", "  ", "   ", "\t"})
			inner := nestFrags(r, depth+1, r.Range(1, 2))
			if r.Chance(0.1) {
				inner = append([]string{""}, inner...)
			}
			indent := strings.Repeat(" ", len(marker)+len(sp))
			if sp == "\t" {
				indent = strings.Repeat(" ", 4)
			}
			for i, l := range inner {
				switch {
				case i == 0:
					out = append(out, strings.TrimRight(marker+sp+l, " \t")+trailing(l))
				case l == "":
					out = append(out, "")
				default:
					out = append(out, indent+l)
				}
			}
			if loose && it < items-1 {
				out = append(out, "")
			}
		}
		return out
	}
}

func trailing(l string) string {
	// keep hard-break spaces that TrimRight removed
	if strings.HasSuffix(l, "  ") {
		return "  "
	}
	return ""
}

func nestFrags(r *Rng, depth, n int) []string {
	var out []string
	for i := 0; i < n; i++ {
		if i > 0 && r.Chance(0.6) {
			out = append(out, "")
		}
		out = append(out, blockFrag(r, depth)...)
	}
	return out
}

// deepNest produces deep container or inline nesting.
func deepNest(r *Rng) []byte {
	d := r.Range(8, 60)
	var sb strings.Builder
	switch r.Intn(6) {
	case 0:
		sb.WriteString(strings.Repeat("> ", d) + "x\n")
	case 1:
		for i := 0; i < d/2; i++ {
			sb.WriteString(strings.Repeat("  ", i) + "- a\n")
		}
	case 2:
		sb.WriteString(strings.Repeat("[", d) + "a" + strings.Repeat("](/u)", d) + "\n")
	case 3:
		sb.WriteString(strings.Repeat("*a **b ", d) + strings.Repeat("** c*", d/2) + "\n")
	case 4:
		sb.WriteString(strings.Repeat("- > ", d/2) + "x\n")
	default:
		sb.WriteString(strings.Repeat("`", d) + " x " + strings.Repeat("`", d-1) + "\n" + strings.Repeat("[](", d))
	}
	return []byte(sb.String())
}

// ---- class-homogeneous lines ------------------------------------------------
//
// A line is a few container prefixes, a line opener and 0-3 tokens drawn from
// ONE token class (sometimes one stray token of another class).  Conditions of
// the form "an info string / title / label / line that consists ONLY of X" are
// common this way, which token soup over one big alphabet almost never hits.

var tokenClasses = [][]string{
	{"&#32;", "&#x20;", "&Tab;", "&NewLine;", "&nbsp;", "&#0;", "&#xD800;", "&#x110000;", "&#9;", "&#10;", "&#13;", "&amp;", "&lt;", "&quot;", "&;", "&#;", "&#x;", "&copy", "&#1234567890;", "&NoSuchEntity;", "&#xFFFD;", "&AElig", "&ngE;", "&#x0;", "&zwnj;", "&ensp;"},
	{" ", "  ", "\t", "\\", "\\\\", "`", "``", "*", "**", "_", "__", "~", "#", "=", "-", "+", ".", ")", "(", "[", "]", "!", "<", ">", ":", "'", "\"", "|", "\\`", "\\[", "\\<", "\\&"},
	{"<a>", "</a>", "<B>", "<SPAN x=y>", "<br/>", "<!--", "-->", "<!-->", "<!--->", "<?", "?>", "<![CDATA[", "]]>", "<!X", "<!x>", "<a href='", "<a href=\"x", "<https://x.y>", "<x@y.z>", "<\u03a3>", "</", "<", "<a/", "<a b=c d>", "<LongTagName>", "<I>", "</LongTagName >", "<a\tb>", "<sCrIpT>", "<pre>", "</pre>"},
	{"[a]", "[a]:", "[A]", "(/u)", "(<u v>)", "(/u \"t\")", "(/u 't')", "(/u (t))", "[]", "![", "](", "][", "[^a]", "[a b]", "[a\\]b]", "(", ")", "(<>)", "(/u\\))", "[a]: /u", "[a]: <>", "[\u1e9e]", "[SS]", "[ a  b ]", "(/%zz?a=b&c=\u00e9)", "(/100%_done)", "(/x%2G)", "(/%GG)", "(/%5B%5d%)", "<http://x/?q=%GZ>", "[p]: /x%_y", "(/u 'a\\'b')", "(\\)"},
	{"a", "word", "\u00c9", "\u00df", "\u00a0", "\u2003", "0", "12", "x y", "\ufeff", "e\u0301", "\U0001f600", "\x7f", "Z"},
}

var lineOpeners = []string{"```", "~~~", "````", "`````", "~~~~", "``` ", "# ", "###### ", "#", "####### ", "    ", "\t", "[a]: ", "[Foo]:", "<div>", "<pre>", "<!--", "<?", "- ", "* ", "+ ", "1. ", "12) ", "0. ", "> ", ">", "", "", "", "", "***", "===", "---", "   ", "  - ", "   > "}

var containerPrefixes = []string{"> ", ">", "- ", "  ", "1. ", "    ", "\t", "* ", ">\t", "   "}

func classLines(r *Rng) []byte {
	var sb strings.Builder
	nl := r.Range(1, 8)
	for i := 0; i < nl; i++ {
		for k := r.Intn(3); k > 0; k-- {
			if r.Chance(0.6) {
				sb.WriteString(r.Pick(containerPrefixes))
			}
		}
		sb.WriteString(r.Pick(lineOpeners))
		cls := tokenClasses[r.Intn(len(tokenClasses))]
		for k := r.Intn(4); k > 0; k-- {
			if r.Chance(0.12) {
				sb.WriteString(r.Pick(tokenClasses[r.Intn(len(tokenClasses))]))
			} else {
				sb.WriteString(r.Pick(cls))
			}
			if r.Chance(0.25) {
				sb.WriteByte(' ')
			}
		}
		sb.WriteString(r.Pick([]string{"", "", "", " ", "  ", "\\", "\t"}))
		if i < nl-1 || r.Chance(0.7) {
			sb.WriteByte('\n')
		}
	}
	return []byte(sb.String())
}

// ---- small-alphabet soups (swarm style) --------------------------------------
//
// Each document is a random string over a SMALL random alphabet (2-6 tokens
// drawn from the pool of syntactically significant tokens).  Leaving most
// features out of each document concentrates the probability mass on the
// intricate interactions of the few that are in (emphasis delimiters only;
// brackets, backticks and newlines only; ...), which a soup over the whole
// pool practically never produces.  One document in five is instead built
// around LONG RUNS of one token whose length sits at a round number.

var soupPool = []string{"%", "%G", "%_", "%2G", "%5b", "%Zz", "(/", "<http://x/", "*", "_", "`", "[", "]", "(", ")", "!", "<", ">", "\\", "\n", "\n", "\n\n", " ", " ", "  ", "a", "b", "&", "#", ";", ":", "\"", "'", "-", "+", "1", ".", "=", "~", "\t", "|", "/", "x@y.z", "http://a", "&amp;", "&#", "]:", "](", "][", " \n", "\r\n", "\x00", "\u00e9", "**", "__", "``", "> ", "- ", "<a", "/>", "-->", "<!--", "]]>", "?>"}

var runLengths = []int{15, 16, 17, 31, 32, 33, 63, 64, 65, 79, 80, 81, 99, 100, 101, 127, 128, 129, 255, 256, 257, 999, 1000, 1001}

// nestPairs: inline constructs that nest; N levels of one of them (or of two
// alternating) around a small core.  Work that doubles per nesting level is
// invisible at the depth of 2-3 that ordinary documents have.
var nestPairs = [][2]string{{"![", "](u)"}, {"![", "](u \"t\")"}, {"[", "](u)"}, {"![", "][r]"}, {"![", "]"}, {"[", "]"}, {"*", "*"}, {"**", "**"}, {"_", "_"}, {"<b>", "</b>"}, {"![*", "*](u)"}, {"`", "`"}, {"(", ")"}, {"[![", "](u)](v)"}}

func nestedInline(r *Rng) []byte {
	var sb strings.Builder
	n := []int{5, 12, 20, 28, 33, 40, 60}[r.Intn(7)]
	a := nestPairs[r.Intn(len(nestPairs))]
	b := a
	if r.Chance(0.3) {
		b = nestPairs[r.Intn(len(nestPairs))]
	}
	sb.WriteString(r.Pick([]string{"", "", "# ", "> ", "- "}))
	for i := 0; i < n; i++ {
		if i%2 == 0 {
			sb.WriteString(a[0])
		} else {
			sb.WriteString(b[0])
		}
	}
	sb.WriteString(r.Pick([]string{"x", "", " ", "&amp;", "x\ny"}))
	for i := n - 1; i >= 0; i-- {
		if i%2 == 0 {
			sb.WriteString(a[1])
		} else {
			sb.WriteString(b[1])
		}
	}
	sb.WriteString(r.Pick([]string{"\n", "", "\n\n[r]: /u\n"}))
	return []byte(sb.String())
}

func soup(r *Rng) []byte {
	var sb strings.Builder
	if r.Chance(0.12) {
		return nestedInline(r)
	}
	if r.Chance(0.2) {
		tok := r.Pick([]string{"`", "*", "_", "~", "[", "]", "(", ")", "<", ">", "#", "=", "-", "+", "\\", "&", "!", " ", "\t", "a", "1", ">", "> ", "- ", "\u00e9"})
		n := runLengths[r.Intn(len(runLengths))]
		// ... optionally inside a construct with a length-limited or
		// fixed-buffer part: tag / attribute names, entity names and numbers,
		// labels (999), destinations, autolinks, e-mail local parts
		pre := r.Pick([]string{"", "", "x ", "> ", "- ", "[a]: ", "<", "</", "<x-", "<a ", "<a b=\"", "&", "&#", "&#x", "[", "![", "[x](", "[x][", "`", "http://", "<http://", "<", "[a]: /u '"})
		if r.Chance(0.5) {
			tok = r.Pick([]string{"a", "A", "1", "f", "-", "a.", "\u00e9"})
		}
		sb.WriteString(pre)
		sb.WriteString(strings.Repeat(tok, n))
		sb.WriteString(r.Pick([]string{"", "", ">", " >", "/>", ";", "]", ")", "\"", "'", "`", "@b.c>", ".com>", "]: /u", "=c>"}))
		switch r.Intn(5) {
		case 0:
			sb.WriteString(" y " + strings.Repeat(tok, n))
		case 1:
			sb.WriteString(" y " + strings.Repeat(tok, n-1))
		case 2:
			sb.WriteString("\n" + strings.Repeat(tok, n+1))
		case 3:
			sb.WriteString(" y")
		}
		if r.Chance(0.7) {
			sb.WriteByte('\n')
		}
		return []byte(sb.String())
	}
	k := r.Range(2, 6)
	alpha := make([]string, k)
	for i := range alpha {
		alpha[i] = r.Pick(soupPool)
	}
	if r.Chance(0.5) {
		alpha = append(alpha, "a", " ")
	}
	for n := r.Range(4, 40); n > 0; n-- {
		sb.WriteString(r.Pick(alpha))
	}
	if r.Chance(0.6) {
		sb.WriteByte('\n')
	}
	if r.Chance(0.15) {
		// give reference-style constructs something to resolve against
		sb.WriteString("\n[a]: /u\n[b]: /v 't'\n")
	}
	return []byte(sb.String())
}

// ---- high-cardinality content ------------------------------------------------
//
// Content-keyed state (a bounded cache of entity names, labels, destinations
// or tag names; a table that is rebuilt or rotated once it holds N entries)
// only leaves its first generation when a PROCESS has seen many DISTINCT keys.
// The other generators draw from pools of a few dozen tokens, so over the
// thousands of evaluations of one worker every such cache stays in its
// warm-up state.  These documents carry 4-60 distinct keys of one or two
// kinds, drawn from pools of 600 names each (a mix of real names and
// synthesised ones), so a worker's history rotates a 64/128/256-entry
// structure every few evaluations and later evaluations hit keys of an
// earlier generation.

var realEntities = []string{"amp", "lt", "gt", "quot", "apos", "nbsp", "copy", "reg", "trade", "hellip", "mdash", "ndash", "lsquo", "rsquo", "ldquo", "rdquo", "bull", "middot", "para", "sect", "deg", "plusmn", "times", "divide", "frac12", "frac14", "frac34", "sup1", "sup2", "sup3", "micro", "laquo", "raquo", "iexcl", "iquest", "cent", "pound", "yen", "euro", "curren", "brvbar", "uml", "ordf", "ordm", "not", "shy", "macr", "acute", "cedil", "Agrave", "Aacute", "Acirc", "Atilde", "Auml", "Aring", "AElig", "Ccedil", "Egrave", "Eacute", "Ecirc", "Euml", "Igrave", "Iacute", "Icirc", "Iuml", "ETH", "Ntilde", "Ograve", "Oacute", "Ocirc", "Otilde", "Ouml", "Oslash", "Ugrave", "Uacute", "Ucirc", "Uuml", "Yacute", "THORN", "szlig", "agrave", "aacute", "acirc", "atilde", "auml", "aring", "aelig", "ccedil", "egrave", "eacute", "ecirc", "euml", "igrave", "iacute", "icirc", "iuml", "eth", "ntilde", "ograve", "oacute", "ocirc", "otilde", "ouml", "oslash", "ugrave", "uacute", "ucirc", "uuml", "yacute", "thorn", "yuml", "Alpha", "Beta", "Gamma", "Delta", "Epsilon", "Zeta", "Eta", "Theta", "Iota", "Kappa", "Lambda", "Mu", "Nu", "Xi", "Omicron", "Pi", "Rho", "Sigma", "Tau", "Upsilon", "Phi", "Chi", "Psi", "Omega", "alpha", "beta", "gamma", "delta", "epsilon", "zeta", "eta", "theta", "iota", "kappa", "lambda", "mu", "nu", "xi", "omicron", "pi", "rho", "sigmaf", "sigma", "tau", "upsilon", "phi", "chi", "psi", "omega", "larr", "uarr", "rarr", "darr", "harr", "lArr", "rArr", "hArr", "forall", "part", "exist", "empty", "nabla", "isin", "notin", "ni", "prod", "sum", "minus", "lowast", "radic", "prop", "infin", "ang", "and", "or", "cap", "cup", "int", "there4", "sim", "cong", "asymp", "ne", "equiv", "le", "ge", "sub", "sup", "nsub", "sube", "supe", "oplus", "otimes", "perp", "sdot", "lceil", "rceil", "lfloor", "rfloor", "loz", "spades", "clubs", "hearts", "diams", "OElig", "oelig", "Scaron", "scaron", "Yuml", "fnof", "circ", "tilde", "ensp", "emsp", "thinsp", "zwnj", "zwj", "lrm", "rlm", "sbquo", "bdquo", "dagger", "Dagger", "permil", "lsaquo", "rsaquo", "oline", "frasl", "weierp", "image", "real", "alefsym", "crarr", "ClockwiseContourIntegral", "DoubleLongLeftRightArrow", "CounterClockwiseContourIntegral", "ngE", "nvlt", "Tab", "NewLine", "NotEqualTilde", "fjlig", "ThickSpace"}

// cardKey returns the i-th key of a pool of 600 for the given kind.
func cardKey(kind string, i int) string {
	switch kind {
	case "entity":
		if i < len(realEntities) {
			return "&" + realEntities[i] + ";"
		}
		return "&z" + strconv.FormatInt(int64(i), 36) + ";" // well-formed, unknown name
	case "numeric":
		if i%2 == 0 {
			return "&#" + strconv.Itoa(33+i*37) + ";"
		}
		return "&#x" + strconv.FormatInt(int64(0xA0+i*29), 16) + ";"
	case "label":
		return "[" + []string{"ref ", "RÉF ", "ßx ", "n"}[i%4] + strconv.Itoa(i) + "]"
	case "dest":
		return "[t](/p" + strconv.Itoa(i) + "/ä?q=" + strconv.Itoa(i*7) + "&r=%zz \"T" + strconv.Itoa(i) + "\")"
	case "autolink":
		return "<http://h" + strconv.Itoa(i) + ".example/ü/" + strconv.Itoa(i) + ">"
	case "tag":
		return "<" + []string{"x-", "X-", "Custom", "sCRIPT"}[i%4] + strconv.Itoa(i) + " a=\"" + strconv.Itoa(i) + "\">"
	case "info":
		return "lang" + strconv.Itoa(i)
	case "word":
		return []string{"w", "Wé", "Ж", "x_"}[i%4] + strconv.Itoa(i)
	}
	return "k" + strconv.Itoa(i)
}

var cardKinds = []string{"entity", "entity", "entity", "numeric", "label", "label", "dest", "autolink", "tag", "tag", "info", "word"}

func cardinality(r *Rng) []byte { return cardinalityN(r, r.Chance(0.3)) }

// cardinalityN: volume = 150-500 keys, 85 % of them practically unique in the
// life of a process (pool of 2^30) and 15 % from a hot set of 24 that every
// such document shares.  A few thousand-entry cache then rotates every few
// evaluations, and the hot keys are looked up again right after each rotation
// - by several tasks of the same scenario when the rotation falls inside it.
func cardinalityN(r *Rng, volume bool) []byte {
	var sb strings.Builder
	kinds := []string{r.Pick(cardKinds)}
	if r.Chance(0.4) {
		kinds = append(kinds, r.Pick(cardKinds))
	}
	n := []int{4, 8, 16, 30, 60}[r.Intn(5)]
	if volume {
		n = []int{150, 300, 500}[r.Intn(3)]
	}
	// a window of the pool: neighbouring evaluations overlap in part
	base := r.Intn(600)
	width := []int{n, 2 * n, 150, 600}[r.Intn(4)]
	var defs []string
	perLine := r.Range(1, 6)
	for i := 0; i < n; i++ {
		kind := kinds[i%len(kinds)]
		k := (base + r.Intn(width)) % 600
		if volume {
			if r.Chance(0.15) {
				k = r.Intn(24)
			} else {
				k = 600 + r.Intn(1<<30)
			}
		}
		key := cardKey(kind, k)
		switch kind {
		case "label":
			switch r.Intn(3) {
			case 0:
				sb.WriteString(key) // shortcut reference
			case 1:
				sb.WriteString("[text]" + key)
			default:
				sb.WriteString("!" + key + "[]")
			}
			if r.Chance(0.7) {
				defs = append(defs, key+": /d"+strconv.Itoa(k)+" 't"+strconv.Itoa(k)+"'")
			}
		case "info":
			sb.WriteString("\n```" + key + " &" + realEntities[k%len(realEntities)] + ";\nc\n```\n")
		case "tag":
			if r.Chance(0.3) {
				sb.WriteString("\n\n" + key + "\nblock\n\n")
			} else {
				sb.WriteString(key)
			}
		default:
			sb.WriteString(key)
		}
		if (i+1)%perLine == 0 {
			sb.WriteString(r.Pick([]string{"\n", "\n", " \n", "\n\n", "\n> ", "\n- "}))
		} else {
			sb.WriteByte(' ')
		}
	}
	sb.WriteString("\n\n")
	for _, d := range defs {
		sb.WriteString(d + "\n")
	}
	return []byte(sb.String())
}

// ---- multi-line link reference definitions inside containers, with tabs and NULs
//
// The scan that decides whether a paragraph starts with link reference
// definitions reads across line boundaries through a reader that skips
// container prefixes, expands partially consumed tabs into indent nodes of
// width 1-3 and counts padded NUL bytes.  Those three mechanisms only meet in
// a paragraph that (1) starts like a definition, (2) continues on a line whose
// leading tab the container consumes in part, and (3) has a NUL further on.
func refdefTabs(r *Rng) []byte {
	type cont struct{ first, rest string }
	conts := []cont{
		{">", ">"}, {"> ", "> "}, {">>", ">>"}, {">>>", ">>>"}, {">>>>", ">>>>"}, {" >", " >"}, {"  >", "  >"}, {"   >", "   >"},
		{"- ", "  "}, {"-  ", "   "}, {"1. ", "   "}, {"10. ", "    "}, {"100. ", "     "}, {"100. ", "    "}, {"  - ", "    "},
		{"> - ", ">   "}, {"> 1. ", ">    "}, {"- > ", "  > "}, {"", ""}, {"", " "}, {"", "   "},
	}
	c := conts[r.Intn(len(conts))]
	var sb strings.Builder
	piece := func() string {
		return r.Pick([]string{"a", "b c", "\x00", "\x00\x00", "x\x00", "\t", " ", "\\]", "\\", "é", "foo", "[", "*", "`", "&amp;", "<", ">"})
	}
	tabs := func() string {
		return r.Pick([]string{"\t", " \t", "  \t", "   \t", "    \t", "\t\t", "\t ", "", " ", "    "})
	}
	nl := r.Range(2, 5)
	part := 0 // 0 label, 1 destination, 2 title, 3 after
	sb.WriteString(c.first + "[")
	for line := 0; line < nl; line++ {
		if line > 0 {
			rest := c.rest
			if r.Chance(0.15) {
				rest = "" // lazy continuation
			}
			sb.WriteString(rest + tabs())
		}
		for k := r.Range(0, 4); k > 0; k-- {
			sb.WriteString(piece())
		}
		if r.Chance(0.45) {
			switch part {
			case 0:
				sb.WriteString("]:" + r.Pick([]string{" ", "", "\t", "  "}))
				part = 1
			case 1:
				sb.WriteString(r.Pick([]string{"/u", "</d e\x00st>", "<>", "/u\x00", "/p(a)"}) + r.Pick([]string{" ", "", "\t"}))
				part = 2
			case 2:
				sb.WriteString(r.Pick([]string{"'t", "\"ti\x00tle", "(t", "'t'", "\"t\" x"}))
				part = 3
			}
		}
		sb.WriteString(r.Pick([]string{"\n", "\n", "\n", "\r\n", "\r", " \n", "\\\n"}))
	}
	if r.Chance(0.5) {
		sb.WriteString(r.Pick([]string{"'", "\"", ")", "]: /u", ""}) + "\n")
	}
	if r.Chance(0.5) {
		sb.WriteString("\n" + c.first + "[a] after\n")
	}
	return []byte(sb.String())
}

// manyBlocks: 100-700 (one time in ten 1100-2100) short root blocks of mixed
// kinds, every one with inline content to complete, a few link reference
// definitions among them.
func manyBlocks(r *Rng) []byte {
	n := r.Range(100, 700)
	if r.Chance(0.1) {
		n = r.Range(1100, 2100)
	}
	kinds := []string{"a%d\n\n", "*b%d*\n\n", "# h%d\n\n", "`c%d`\n\n", "[r%d]\n\n", "> q%d\n\n", "[r%d]: /u\n\n", "x%d\\\ny\n\n", "<b>%d</b>\n\n", "&amp;%d\n\n"}
	var sb strings.Builder
	for i := 0; i < n; i++ {
		k := kinds[r.Intn(len(kinds))]
		sb.WriteString(strings.Replace(k, "%d", itoa(i%7), 1))
	}
	return []byte(sb.String())
}
