package main

import (
	"errors"
	"fmt"
	"io"
	"io/fs"
	"syscall"

	"verif/simrt"
	"zombiezen.com/go/commonmark"
	"zombiezen.com/go/commonmark/format"
)

var (
	errWriteFirst = errors.New("simwriter: injected failure (first)")
	errWriteLater = errors.New("simwriter: failure on a call made after the first failure")
)

// writerErrKinds: WHICH error the failing write returns ("" = a private
// sentinel).  A callee may single errors out by value (io.ErrShortWrite,
// io.EOF, EPIPE) or by behaviour (Temporary(), Timeout()) and treat them as
// "progress" or "end of output"; C20 says "that writer's first error" whatever
// it is.
var writerErrKinds = []string{"", "", "", "", "short-write", "short-write", "wraps-short-write", "eof", "temporary", "eintr", "eagain", "closed-pipe", "fs-closed", "epipe", "enospc", "noncomparable"}

type wrapsShortWrite struct{}

func (wrapsShortWrite) Error() string { return "simwriter: quota exceeded" }
func (wrapsShortWrite) Unwrap() error { return io.ErrShortWrite }

func writerFaultErr(kind string) error {
	switch kind {
	case "":
		return errWriteFirst
	case "short-write":
		return io.ErrShortWrite
	case "wraps-short-write":
		return wrapsShortWrite{}
	case "eof":
		return io.EOF
	case "temporary":
		return tempErr{}
	case "eintr":
		return syscall.EINTR
	case "eagain":
		return syscall.EAGAIN
	case "closed-pipe":
		return io.ErrClosedPipe
	case "fs-closed":
		return fs.ErrClosed
	case "epipe":
		return syscall.EPIPE
	case "enospc":
		return syscall.ENOSPC
	case "noncomparable":
		return errNonComparable
	}
	panic("unknown writer error kind " + kind)
}

// SimWriter accepts writes until the failing call (FailAt) or until the byte
// budget is crossed ("disk full": the crossing write is partial + error).
// Later calls return a different error, so "first error" is distinguishable.
type SimWriter struct {
	scn        *WriterScn
	Buf        []byte
	Calls      int
	Failed     bool
	AfterFail  int
	StringCall int
	Sizes      []int
	// FullWithErr counts failing calls that reported n == len(p) with the error
	FullWithErr int
}

func (w *SimWriter) write(p []byte) (int, error) {
	simrt.Yield(siteWrite)
	idx := w.Calls
	w.Calls++
	if len(w.Sizes) < 1<<16 {
		w.Sizes = append(w.Sizes, len(p))
	}
	if w.Failed {
		w.AfterFail++
		return 0, errWriteLater
	}
	if w.scn != nil {
		if w.scn.FailAt >= 0 && idx == w.scn.FailAt {
			w.Failed = true
			n := w.scn.Partial
			if n > len(p) {
				n = len(p)
			}
			if n == len(p) && n > 0 {
				n = len(p) - 1
			}
			if w.scn.Full {
				n = len(p)
				w.FullWithErr++
			}
			w.Buf = append(w.Buf, p[:n]...)
			return n, writerFaultErr(w.scn.Err)
		}
		if w.scn.ByteBudget >= 0 && len(w.Buf)+len(p) > w.scn.ByteBudget {
			w.Failed = true
			n := w.scn.ByteBudget - len(w.Buf)
			if n < 0 {
				n = 0
			}
			w.Buf = append(w.Buf, p[:n]...)
			return n, writerFaultErr(w.scn.Err)
		}
	}
	w.Buf = append(w.Buf, p...)
	return len(p), nil
}

type plainWriter struct{ *SimWriter }

func (w plainWriter) Write(p []byte) (int, error) { return w.write(p) }

type stringWriter struct{ *SimWriter }

func (w stringWriter) Write(p []byte) (int, error) { return w.write(p) }
func (w stringWriter) WriteString(s string) (int, error) {
	w.StringCall++
	return w.write([]byte(s))
}

// richWriter is what bufio.Writer and bytes.Buffer look like to a callee that
// probes for optional interfaces: io.StringWriter, io.ByteWriter and
// io.ReaderFrom on top of io.Writer.  Every entry point is one write call of
// the same fault schedule.
type richWriter struct{ *SimWriter }

func (w richWriter) Write(p []byte) (int, error) { return w.write(p) }
func (w richWriter) WriteString(s string) (int, error) {
	w.StringCall++
	return w.write([]byte(s))
}
func (w richWriter) WriteByte(c byte) error {
	_, err := w.write([]byte{c})
	return err
}
func (w richWriter) ReadFrom(r io.Reader) (int64, error) {
	b, err := io.ReadAll(r)
	if err != nil {
		return 0, err
	}
	n, err := w.write(b)
	return int64(n), err
}

var writerFlavours = []string{"writer", "stringwriter", "richwriter"}

func newSimWriter(scn *WriterScn) (*SimWriter, io.Writer) {
	sw := &SimWriter{scn: scn}
	if scn != nil && scn.Flavour == "stringwriter" {
		return sw, stringWriter{sw}
	}
	if scn != nil && scn.Flavour == "richwriter" {
		return sw, richWriter{sw}
	}
	return sw, plainWriter{sw}
}

func formatBlocks(w io.Writer, blocks []*commonmark.RootBlock) error {
	return format.Format(w, blocks)
}

// ---- renderer configurations ----------------------------------------------

var filterKinds = []string{"nil", "gfm", "always", "never", "set"}

func makeFilter(kind string) func([]byte) bool {
	switch {
	case kind == "nil" || kind == "":
		return nil
	case kind == "gfm":
		return func(tag []byte) bool {
			simrt.Yield(siteFilter)
			return commonmark.FilterTagGFM(tag)
		}
	case kind == "always":
		return func(tag []byte) bool { simrt.Yield(siteFilter); return true }
	case kind == "never":
		return func(tag []byte) bool { simrt.Yield(siteFilter); return false }
	case len(kind) > 4 && kind[:4] == "set:":
		seed := hashString(kind)
		return func(tag []byte) bool {
			simrt.Yield(siteFilter)
			return hashBytes(seed, tag)%3 == 0
		}
	}
	panic("unknown filter " + kind)
}

func makeRenderer(rs *RenderScn, refs commonmark.ReferenceMap) *commonmark.HTMLRenderer {
	return &commonmark.HTMLRenderer{
		ReferenceMap:      refs,
		SoftBreakBehavior: commonmark.SoftBreakBehavior(rs.SoftBreak),
		IgnoreRaw:         rs.IgnoreRaw,
		FilterTag:         makeFilter(rs.Filter),
	}
}

func genRenderScn(r *Rng) RenderScn {
	f := filterKinds[r.Intn(len(filterKinds))]
	if f == "set" {
		f = fmt.Sprintf("set:%x", r.U64()&0xffff)
	}
	return RenderScn{SoftBreak: r.Intn(3), IgnoreRaw: r.Chance(0.5), Filter: f}
}

// oddSoftBreaks: SoftBreakBehavior is an int type; "every renderer
// configuration" includes values outside the three named constants (the
// unchanged renderer treats them like SoftBreakPreserve).
var oddSoftBreaks = []int{-1, 3, 7, 255, -128, 1 << 20}

// allRenderScns is the full SoftBreakBehavior x IgnoreRaw x FilterTag grid.
func allRenderScns(setSeed uint64) []RenderScn {
	var out []RenderScn
	for sb := 0; sb < 3; sb++ {
		for _, raw := range []bool{false, true} {
			for _, f := range filterKinds {
				if f == "set" {
					f = fmt.Sprintf("set:%x", setSeed&0xffff)
				}
				out = append(out, RenderScn{SoftBreak: sb, IgnoreRaw: raw, Filter: f})
			}
		}
	}
	return out
}
