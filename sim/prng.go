package main

// Rng is splitmix64.  It is the only source of randomness in the harness and
// is used only to GENERATE explicit scenarios; running a scenario never draws
// from it.
type Rng struct{ s uint64 }

func mix64(z uint64) uint64 {
	z = (z ^ (z >> 30)) * 0xbf58476d1ce4e5b9
	z = (z ^ (z >> 27)) * 0x94d049bb133111eb
	return z ^ (z >> 31)
}

func (r *Rng) U64() uint64 {
	r.s += 0x9e3779b97f4a7c15
	return mix64(r.s)
}

// Intn returns a value in [0,n); n <= 0 yields 0.
func (r *Rng) Intn(n int) int {
	if n <= 0 {
		return 0
	}
	return int(r.U64() % uint64(n))
}

// Range returns a value in [lo,hi].
func (r *Rng) Range(lo, hi int) int {
	if hi <= lo {
		return lo
	}
	return lo + r.Intn(hi-lo+1)
}

func (r *Rng) Chance(p float64) bool {
	return float64(r.U64()>>11)/float64(1<<53) < p
}

func (r *Rng) Pick(ss []string) string { return ss[r.Intn(len(ss))] }

func hashString(s string) uint64 {
	h := uint64(1469598103934665603)
	for i := 0; i < len(s); i++ {
		h ^= uint64(s[i])
		h *= 1099511628211
	}
	return h
}

func hashBytes(h uint64, b []byte) uint64 {
	if h == 0 {
		h = 1469598103934665603
	}
	for _, c := range b {
		h ^= uint64(c)
		h *= 1099511628211
	}
	return mix64(h)
}

// rngFor derives the PRNG of run i of an engine/phase from the base seed.
func rngFor(base uint64, stream string, i int) *Rng {
	return &Rng{s: mix64(base^hashString(stream)) + uint64(i)*0x9e3779b97f4a7c15*7919}
}
