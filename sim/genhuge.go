package main

import "bytes"

// realBlockLimit is the streaming parser's documented block-size limit under
// the shipped constants.  The harness needs it only to stay BELOW it (C08
// quantifies over documents whose root blocks are below the limit); nothing
// is required of the code at or above it.
const realBlockLimit = 1 << 20

// bigBlock builds ONE root block of exactly n bytes (ending in a line ending)
// of the given shape.
func bigBlock(r *Rng, n int, shape string) []byte {
	// Inline content that ends up in ONE paragraph of this size must be plain:
	// the inline parser is (legitimately) quadratic in unmatched brackets and
	// delimiter runs, which at a megabyte is hours.  Code and HTML blocks are
	// not inline-parsed, so those carry the usual fragments.  List items are
	// plain as well: on this library an item like "# z <b>" gets a Text node
	// that runs to the end of the ROOT block (DESIGN section 6), and 28 000 of
	// them make Render's output - and anything that reads every node's text -
	// quadratic: 28 GB for a 1 MiB list.
	plain := []string{"lorem ipsum dolor sit amet", "consectetur adipiscing elit, sed do", "caf\u00e9 na\u00efve \u20ac 12", "a.b c;d e-f"}[r.Intn(4)]
	var open, line, closer string
	switch shape {
	case "paragraph":
		line = plain + "\n"
	case "fenced":
		open, line, closer = "````text\n", "code "+inlineText(r)+"\n", "````\n"
	case "quote":
		line = "> " + plain + "\n"
	case "list":
		line = "- " + plain + "\n"
	case "loose-list":
		line = "1. " + plain + "\n\n"
	case "indented":
		line = "    " + inlineText(r) + "\n"
	case "html":
		open, line, closer = "<div>\n", inlineText(r)+" <b>x</b>\n", "</div>\n"
	default: // one-line: a single line without any line ending inside
		line = "x"
	}
	if shape == "one-line" {
		out := bytes.Repeat([]byte{'x'}, n)
		for i := 80; i < n; i += 97 {
			out[i] = ' '
		}
		out[n-1] = '\n'
		return out
	}
	out := make([]byte, 0, n)
	out = append(out, open...)
	for len(out)+len(line)+len(closer) <= n {
		out = append(out, line...)
	}
	// pad to the exact size with text that continues the last line's construct
	pad := n - len(out) - len(closer)
	if pad > 0 {
		switch shape {
		case "loose-list":
			// keep it one list: a short last item
			if pad >= 6 {
				out = append(out, "1. "...)
				out = append(out, bytes.Repeat([]byte{'z'}, pad-4)...)
				out = append(out, '\n')
			} else {
				out = append(out[:len(out)-1], bytes.Repeat([]byte{' '}, pad)...)
				out = append(out, '\n')
			}
		default:
			// lengthen the last line (before its line ending)
			if len(out) > len(open) {
				out = out[:len(out)-1]
				pad++
			}
			pfx := ""
			if len(out) == len(open) {
				switch shape {
				case "quote":
					pfx = "> "
				case "list":
					pfx = "- "
				case "indented":
					pfx = "    "
				}
			}
			if pad-1 >= len(pfx) {
				out = append(out, pfx...)
				out = append(out, bytes.Repeat([]byte{'w'}, pad-1-len(pfx))...)
			} else {
				out = append(out, bytes.Repeat([]byte{'w'}, pad-1)...)
			}
			out = append(out, '\n')
		}
	}
	out = append(out, closer...)
	return out
}

var hugeShapes = []string{"paragraph", "fenced", "quote", "list", "loose-list", "indented", "html", "one-line"}

// paddedExtent is a conservative bound on what the streaming parser must hold
// in its buffer to deliver block i: everything from the end of the previous
// block to the end of the first line of the next block, NUL-padded.
func paddedExtent(doc []byte, ranges [][2]int, i int) int {
	from := 0
	if i > 0 {
		from = ranges[i-1][1]
	}
	to := len(doc)
	if i+1 < len(ranges) {
		to = ranges[i+1][0]
		for to < len(doc) && doc[to] != '\n' && doc[to] != '\r' {
			to++
		}
		to += 2
		if to > len(doc) {
			to = len(doc)
		}
	}
	seg := doc[from:to]
	return len(seg) + 2*bytes.Count(seg, []byte{0})
}

// genStreamHuge: documents of 0.3-2.6 MiB under the REAL constants, most of
// them with one root block a few bytes to a few chunks below the real 1 MiB
// block-size limit (where the read-size computation shrinks its reads), the
// rest made of many ordinary blocks.  The model parse decides whether the
// document is inside C08's quantifier (every block's extent below the limit);
// a candidate that is not is replaced by its safe core.
func genStreamHuge(r *Rng, prop, phase string, pEarly, pErr float64) []*Scenario {
	loadCorpus()
	filler := func(target int) []byte {
		var out []byte
		for len(out) < target {
			switch r.Intn(4) {
			case 0:
				out = append(out, compose(r, r.Range(1, 6))...)
			case 1:
				line := inlineText(r)
				for i, n := 0, r.Range(20, 400); i < n; i++ {
					out = append(out, line...)
					out = append(out, '\n')
				}
			default:
				out = append(out, corpus[r.Intn(len(corpus))].Data...)
			}
			out = append(out, '\n', '\n')
		}
		return out
	}
	margin := []int{16, 17, 19, 24, 33, 64, 100, 1000, 8192, 8200, 16400, 24600, 30000, 100000, 300000}[r.Intn(15)]
	shape := r.Pick(hugeShapes)
	tail := "\nend\n"
	core := bigBlock(r, realBlockLimit-margin-len(tail), shape)
	build := func(withFiller bool) []byte {
		var doc []byte
		if withFiller {
			doc = append(doc, filler(r.Range(0, 600)*1024)...)
		}
		doc = append(doc, "\nstart\n\n"...)
		doc = append(doc, core...)
		doc = append(doc, tail...)
		if withFiller {
			doc = append(doc, filler(r.Range(0, 900)*1024)...)
		}
		return doc
	}
	doc := build(r.Chance(0.7))
	if r.Chance(0.15) {
		doc = bytes.ReplaceAll(doc, []byte("\n"), []byte("\r")) // same length: CR needs one byte of look-ahead
	}
	inside := func(d []byte) bool {
		_, ranges := deliveryPoints(d)
		if ranges == nil {
			return false
		}
		for i := range ranges {
			if paddedExtent(d, ranges, i) > realBlockLimit-8 {
				return false
			}
		}
		return true
	}
	if !inside(doc) {
		doc = build(false)
		if !inside(doc) {
			return nil
		}
	}
	s := &Scenario{Property: prop, Phase: phase, Doc: doc}
	rs := &ReaderScn{Terminal: r.Pick([]string{"separate", "with-data"}), ExtraCalls: r.Range(1, 3)}
	rs.Fault.Kind = "none"
	limit := len(doc)
	switch x := r.U64() % 1000; {
	case float64(x) < pErr*1000:
		rs.Fault = FaultScn{Kind: "error", At: r.Intn(len(doc) + 1), Err: r.Pick(faultErrKinds), WithData: r.Chance(0.5)}
		limit = rs.Fault.At
	case float64(x) < (pErr+pEarly)*1000:
		rs.Fault = FaultScn{Kind: "early-eof", At: r.Intn(len(doc) + 1), WithData: r.Chance(0.5)}
		limit = rs.Fault.At
	}
	switch r.Intn(5) {
	case 0:
		rs.Family = "whole"
	case 1:
		rs.Family = "uniform-large"
		m := []int{3000, 8192, 20000, 70000, 1 << 20}[r.Intn(5)]
		for left := limit; left > 0; {
			n := r.Range(1, m)
			rs.Ops = append(rs.Ops, n)
			left -= n
		}
	case 2:
		rs.Family = "chunk-aligned"
		for left := limit; left > 0; {
			n := 8192 + r.Range(-2, 2)
			rs.Ops = append(rs.Ops, n)
			left -= n
		}
	case 3:
		rs.Family = "geometric"
		for left := limit; left > 0; {
			n := 1 << uint(6+r.Intn(15))
			n = r.Range((n+1)/2, n)
			rs.Ops = append(rs.Ops, n)
			left -= n
		}
	default:
		// large reads, but tiny ones around the place where the big block ends
		rs.Family = "tiny-near-limit"
		at := bytes.Index(doc, core) + len(core) - r.Range(0, 40000)
		for pos := 0; pos < limit; {
			n := r.Range(4000, 70000)
			if pos >= at && pos < at+45000 {
				n = r.Range(1, 40)
			} else if pos < at && pos+n > at {
				n = at - pos
			}
			rs.Ops = append(rs.Ops, n)
			pos += n
		}
	}
	rs.Scribble = genScribble(r)
	rs.Consumer = genConsumer(r)
	s.Reader = rs
	return []*Scenario{s}
}

// tightLimit is the smallest block-size limit under which the streaming
// parser can still be expected to deliver input exactly like Parse: what it
// must hold at once is a maximal run of adjacent root blocks (a paragraph
// that splits into several definitions is buffered as a whole; a list's or an
// indented code block's range already includes the blank lines that follow
// it) from the start of its first line through the line that closes it plus
// one byte of look-ahead, NUL-padded; the blank lines BETWEEN such runs are
// outside every root block and are consumed one line at a time.  C08
// quantifies over "root blocks below the limit": a limit a few bytes above
// this is inside the quantifier however large the gaps between blocks are.
func tightLimit(input []byte) (int, bool) {
	blocks, _, ok := safeParse(input)
	if !ok {
		return 0, false
	}
	n := len(input)
	lineStart := func(at int) int {
		for at > 0 && input[at-1] != '\n' && input[at-1] != '\r' {
			at--
		}
		return at
	}
	eol := func(at int) int { // end of the line containing at, its line ending included
		i := at
		for i < n && input[i] != '\n' && input[i] != '\r' {
			i++
		}
		if i < n {
			if input[i] == '\r' && i+1 < n && input[i+1] == '\n' {
				i += 2
			} else {
				i++
			}
		}
		return i
	}
	lineEnd := func(at int) int { // ... plus one byte of look-ahead (a CR needs it)
		i := eol(at)
		if i < n {
			i++
		}
		return i
	}
	padded := func(a, b int) int {
		if b > n {
			b = n
		}
		if a > b {
			a = b
		}
		return (b - a) + 2*bytes.Count(input[a:b], []byte{0})
	}
	need := 0
	gapLines := func(a, b int) {
		for a < b {
			if x := padded(a, lineEnd(a)); x > need {
				need = x
			}
			e := eol(a)
			if e <= a {
				break
			}
			a = e
		}
	}
	prevEnd := 0
	for i := 0; i < len(blocks); {
		j := i
		for j+1 < len(blocks) && blocks[j+1].StartOffset <= blocks[j].EndOffset {
			j++
		}
		s, e := lineStart(int(blocks[i].StartOffset)), int(blocks[j].EndOffset)
		gapLines(prevEnd, s)
		if x := padded(s, lineEnd(e)); x > need {
			need = x
		}
		prevEnd = e
		i = j + 1
	}
	gapLines(prevEnd, n)
	return need, true
}

// genMemHuge: a document for IN-MEMORY parsing whose main root block is 1 byte
// to 400 KiB ABOVE the streaming parser's block-size limit.
func genMemHuge(r *Rng) []*Scenario {
	over := []int{1, 2, 16, 100, 4096, 8192, 8193, 100000, 400000}[r.Intn(9)]
	shape := r.Pick(hugeShapes)
	var doc []byte
	if r.Chance(0.5) {
		for n := r.Range(0, 900) * 1024; len(doc) < n; {
			doc = append(doc, compose(r, r.Range(1, 6))...)
			doc = append(doc, '\n', '\n')
		}
	}
	doc = append(doc, "\nstart\n\n"...)
	doc = append(doc, bigBlock(r, realBlockLimit+over, shape)...)
	doc = append(doc, "\nend *x*\n"...)
	if r.Chance(0.15) {
		doc = bytes.ReplaceAll(doc, []byte("\n"), []byte("\r"))
	}
	if r.Chance(0.15) && shape != "one-line" {
		doc[len(doc)/2] = 0 // a NUL: Parse pads a copy
	}
	return []*Scenario{{Property: "C04", Phase: "memhuge", Doc: doc}}
}
