package main

import (
	"fmt"
	"sort"
	"strings"

	"zombiezen.com/go/commonmark"
)

// snapRoot renders everything observable about a root block through the
// public API into a canonical string.  "Same tree" always means equal
// snapshots; private fields are never inspected.
func snapRoot(rb *commonmark.RootBlock) string {
	var sb strings.Builder
	fmt.Fprintf(&sb, "ROOT off=[%d,%d) line=%d src=%q\n", rb.StartOffset, rb.EndOffset, rb.StartLine, rb.Source)
	long := 0 // inline nodes with a span over 4 KiB seen in this snapshot
	snapNode(&sb, &long, rb.Source, rb.AsNode(), 0)
	return sb.String()
}

// snapTree is snapRoot without the document position (used where only the
// tree is compared).
func snapTree(rb *commonmark.RootBlock) string {
	var sb strings.Builder
	fmt.Fprintf(&sb, "src=%q\n", rb.Source)
	long := 0 // inline nodes with a span over 4 KiB seen in this snapshot
	snapNode(&sb, &long, rb.Source, rb.AsNode(), 0)
	return sb.String()
}

func snapNode(sb *strings.Builder, long *int, src []byte, n commonmark.Node, depth int) {
	for i := 0; i < depth; i++ {
		sb.WriteByte(' ')
	}
	if b := n.Block(); b != nil {
		fmt.Fprintf(sb, "B %v %v", b.Kind(), b.Span())
		if l := b.HeadingLevel(); l != 0 {
			fmt.Fprintf(sb, " h%d", l)
		}
		if b.IsOrderedList() {
			sb.WriteString(" ord")
		}
		if b.IsTightList() {
			sb.WriteString(" tight")
		}
		if num := b.ListItemNumber(src); num != -1 {
			fmt.Fprintf(sb, " num=%d", num)
		}
		if info := b.InfoString(); info != nil {
			fmt.Fprintf(sb, " info=%q", info.Text(src))
		}
		sb.WriteByte('\n')
		for i, c := 0, b.ChildCount(); i < c; i++ {
			snapNode(sb, long, src, b.Child(i), depth+1)
		}
		return
	}
	in := n.Inline()
	if in == nil {
		sb.WriteString("NIL\n")
		return
	}
	fmt.Fprintf(sb, "I %v %v", in.Kind(), in.Span())
	if w := in.IndentWidth(); w != 0 {
		fmt.Fprintf(sb, " indent=%d", w)
	}
	if ref := in.LinkReference(); ref != "" {
		fmt.Fprintf(sb, " ref=%q", ref)
	}
	if d := in.LinkDestination(); d != nil {
		fmt.Fprintf(sb, " dest=#%d", childIndex(in, d))
	}
	if t := in.LinkTitle(); t != nil {
		fmt.Fprintf(sb, " title=#%d", childIndex(in, t))
	}
	// The library can produce thousands of inline nodes whose span runs to the
	// end of a megabyte root block (a Text node after an inline HTML tag that
	// ends an ATX heading inside a container, see DESIGN section 6); writing
	// each one's text out would make the snapshot quadratic.  The span is in
	// the snapshot in any case; the text of nodes longer than 4 KiB is written
	// for the first 8 of them per root block, then as length + hash.
	if in.Span().Len() > 4096 {
		*long++
	}
	if in.Span().Len() <= 4096 || *long <= 8 {
		if txt := in.Text(src); txt != "" {
			if len(txt) > 4096 {
				fmt.Fprintf(sb, " text=(%d bytes, hash %x)", len(txt), hashString(txt))
			} else {
				fmt.Fprintf(sb, " text=%q", txt)
			}
		}
	} else {
		sb.WriteString(" text=(not read: more than 8 nodes of this root block span over 4 KiB)")
	}
	sb.WriteByte('\n')
	for i, c := 0, in.ChildCount(); i < c; i++ {
		snapNode(sb, long, src, in.Child(i).AsNode(), depth+1)
	}
}

func childIndex(parent, child *commonmark.Inline) int {
	for i, c := 0, parent.ChildCount(); i < c; i++ {
		if parent.Child(i) == child {
			return i
		}
	}
	return -1
}

func snapRefs(m commonmark.ReferenceMap) string {
	keys := make([]string, 0, len(m))
	for k := range m {
		keys = append(keys, k)
	}
	sort.Strings(keys)
	var sb strings.Builder
	for _, k := range keys {
		d := m[k]
		fmt.Fprintf(&sb, "%q -> dest=%q title=%q present=%v\n", k, d.Destination, d.Title, d.TitlePresent)
	}
	return sb.String()
}

func snapAll(blocks []*commonmark.RootBlock) string {
	var sb strings.Builder
	for i, b := range blocks {
		fmt.Fprintf(&sb, "#%d ", i)
		sb.WriteString(snapRoot(b))
	}
	return sb.String()
}

// firstDiff returns a short description of where two strings first differ.
func firstDiff(a, b string) string {
	n := len(a)
	if len(b) < n {
		n = len(b)
	}
	i := 0
	for i < n && a[i] == b[i] {
		i++
	}
	lo := i - 60
	if lo < 0 {
		lo = 0
	}
	return fmt.Sprintf("first difference at byte %d: …%q vs …%q", i, trunc(a[lo:], 160), trunc(b[lo:], 160))
}

// inspectNode writes what the public accessors say about one node (no
// recursion): used by reader tasks that share a tree.
func inspectNode(sb *strings.Builder, src []byte, n commonmark.Node) {
	if b := n.Block(); b != nil {
		fmt.Fprintf(sb, "B%d%v h%d o%v t%v n%d", b.Kind(), b.Span(), b.HeadingLevel(), b.IsOrderedList(), b.IsTightList(), b.ListItemNumber(src))
		if info := b.InfoString(); info != nil {
			fmt.Fprintf(sb, " info=%q", info.Text(src))
		}
		fmt.Fprintf(sb, " c%d|", b.ChildCount())
		return
	}
	in := n.Inline()
	if in == nil {
		sb.WriteString("NIL|")
		return
	}
	fmt.Fprintf(sb, "I%d%v w%d r%q", in.Kind(), in.Span(), in.IndentWidth(), in.LinkReference())
	if d := in.LinkDestination(); d != nil {
		fmt.Fprintf(sb, " d%q", d.Text(src))
	}
	if t := in.LinkTitle(); t != nil {
		fmt.Fprintf(sb, " t%q", t.Text(src))
	}
	fmt.Fprintf(sb, " x%q c%d|", in.Text(src), in.ChildCount())
}

func sortedRefKeys(m commonmark.ReferenceMap) []string {
	keys := make([]string, 0, len(m))
	for k := range m {
		keys = append(keys, k)
	}
	sort.Strings(keys)
	return keys
}
