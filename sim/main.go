// Command simcheck is the deterministic simulator for go-commonmark:
// driver, worker, replay and minimise modes in one binary, built once per
// build variant against a scratch copy of /repo's working tree.
package main

import (
	"bufio"
	"bytes"
	"encoding/json"
	"flag"
	"fmt"
	"os"
	"os/exec"
	"runtime/debug"
	"runtime/metrics"
	"strings"
	"sync/atomic"
	"time"
	"verif/simrt"
)

func main() {
	if len(os.Args) < 2 {
		fmt.Fprintln(os.Stderr, "usage: simcheck driver|worker|replay|minimise ...")
		os.Exit(2)
	}
	switch os.Args[1] {
	case "worker":
		workerMain(os.Args[2:])
	case "replay":
		replayMain(os.Args[2:])
	case "minimise":
		minimiseMain(os.Args[2:])
	case "driver":
		driverMain(os.Args[2:])
	case "gen":
		genMain(os.Args[2:])
	case "cold":
		coldMain(os.Args[2:])
	default:
		fmt.Fprintln(os.Stderr, "unknown mode", os.Args[1])
		os.Exit(2)
	}
}

func die(format string, a ...interface{}) {
	fmt.Fprintf(os.Stderr, "simcheck: "+format+"\n", a...)
	os.Exit(2)
}

func setupProcess(nsites int, racelog string) {
	nSites = nsites
	// The garbage collector decides when sync.Pool contents are dropped, so
	// its timing is a source of nondeterminism for any change that pools
	// state.  Automatic collections are switched off; evaluate() collects at
	// fixed points of the evaluation sequence instead (a pure function of
	// the history a replay file records).  The memory limit is a safety net.
	debug.SetGCPercent(-1)
	debug.SetMemoryLimit(1536 << 20)
	if racelog != "" {
		if err := openRaceLog(racelog); err != nil {
			die("race log: %v", err)
		}
	}
}

// loadSyncSites reads the instrumenter's site table and remembers the yield
// sites that sit right before / after a synchronisation operation of the code
// under test (there are none on a tree that uses no sync primitive).
func loadSyncSites(path string) {
	syncSites = map[uint32]bool{}
	if path == "" {
		return
	}
	b, err := os.ReadFile(path)
	if err != nil {
		return
	}
	var t struct {
		Sites []struct {
			ID   uint32 `json:"id"`
			Kind string `json:"kind"`
		} `json:"sites"`
	}
	if json.Unmarshal(b, &t) != nil {
		return
	}
	for _, s := range t.Sites {
		if strings.HasPrefix(s.Kind, "sync") {
			syncSites[s.ID] = true
		}
	}
}

func findPhase(prop, name string) *phaseDef {
	for _, p := range phasesFor(prop) {
		if p.Name == name {
			p := p
			return &p
		}
	}
	return nil
}

// ---- worker --------------------------------------------------------------------

func workerMain(args []string) {
	fs := flag.NewFlagSet("worker", flag.ExitOnError)
	prop := fs.String("prop", "", "")
	phase := fs.String("phase", "", "")
	seed := fs.Uint64("seed", 1, "")
	runs := fs.Int("runs", 0, "")
	worker := fs.Int("worker", 0, "")
	workers := fs.Int("workers", 1, "")
	out := fs.String("out", "", "")
	nsites := fs.Int("nsites", 0, "")
	racelog := fs.String("racelog", "", "")
	variant := fs.String("variant", "", "")
	tier := fs.String("tier", "quick", "")
	sitefile := fs.String("sitefile", "", "")
	genchild := fs.Bool("genchild", true, "generate scenarios in a separate process")
	fs.Parse(args)
	setupProcess(*nsites, *racelog)
	loadSyncSites(*sitefile)
	if *nsites > 0 {
		simrt.EnableCoverage(*nsites)
	}
	tierThorough = *tier == "thorough"
	ph := findPhase(*prop, *phase)
	if ph == nil {
		die("no phase %s/%s", *prop, *phase)
	}
	st := newStats()
	seen := map[string]bool{}
	var logDigest uint64
	nruns := 0
	budgetFails := 0
	failedEvals := 0
	var progress int64 = time.Now().Unix()
	var current atomic.Value
	go func() {
		// self-watchdog: one evaluation (or generation) stuck for two minutes of
		// wall clock is reported as harness trouble (exit 4), never as a violation
		// and a worker whose live heap passes 2.5 GiB (a runaway allocation in
		// the code under test; the sandbox has no memory limit of its own) is
		// ended the same way
		sample := []metrics.Sample{{Name: "/memory/classes/heap/objects:bytes"}}
		for tick := 0; ; tick++ {
			time.Sleep(250 * time.Millisecond)
			metrics.Read(sample)
			if sample[0].Value.Kind() == metrics.KindUint64 && sample[0].Value.Uint64() > 2560<<20 {
				fmt.Fprintf(os.Stdout, "worker heap exceeds 2.5 GiB in %v\n", current.Load())
				os.Exit(4)
			}
			if tick%20 == 0 && time.Now().Unix()-atomic.LoadInt64(&progress) > 120 {
				fmt.Fprintf(os.Stdout, "worker stalled for >120s in %v\n", current.Load())
				os.Exit(4)
			}
		}
	}()
	// Scenario generation executes the code under test too (reference parses
	// that place faults, solo runs that measure step counts and site hits).
	// Done in this process it would run each scenario's documents through the
	// library right BEFORE the scenario is evaluated, and so warm exactly the
	// process-wide state (content-keyed caches, pools, lazily built tables) a
	// realistic defect keeps in the wrong place.  A child process generates;
	// this process only evaluates, so the history a replay file records
	// (evaluations only) is the whole history of the process.
	var gen func(i int) []*Scenario = func(i int) []*Scenario {
		scns := ph.Gen(rngFor(*seed, *prop+"/"+*phase, i), i)
		for j, s := range scns {
			s.Env = genEnv(*seed, *prop+"/"+*phase, i, j)
		}
		return scns
	}
	if *genchild && *worker < *runs {
		cmd := exec.Command(os.Args[0], "gen", "-framed", "-prop", *prop, "-phase", *phase, "-seed", fmt.Sprint(*seed),
			"-from", fmt.Sprint(*worker), "-to", fmt.Sprint(*runs-1), "-stride", fmt.Sprint(*workers),
			"-variant", *variant, "-nsites", fmt.Sprint(*nsites), "-tier", *tier, "-sitefile", *sitefile)
		cmd.Env = os.Environ()
		errFile, _ := os.Create(*out + ".gen.stderr")
		cmd.Stderr = errFile
		pipe, err := cmd.StdoutPipe()
		if err != nil {
			die("gen child: %v", err)
		}
		if err := cmd.Start(); err != nil {
			die("gen child: %v", err)
		}
		defer func() { cmd.Process.Kill(); cmd.Wait(); os.Remove(*out + ".gen.stderr") }()
		rd := bufio.NewReaderSize(pipe, 1<<20)
		gen = func(i int) []*Scenario {
			var out []*Scenario
			for {
				line, err := rd.ReadBytes('\n')
				if err != nil {
					cmd.Wait()
					b, _ := os.ReadFile(errFile.Name())
					fmt.Fprintf(os.Stdout, "generator child ended early before run %d: %v: %s\n", i, err, trunc(string(b), 2000))
					os.Exit(4)
				}
				if bytes.HasPrefix(line, []byte("#GENPANIC")) {
					st.Probes["scenario_generation_panicked_inside_the_library_run_index_skipped"]++
					continue
				}
				if line[0] == '#' {
					var got int
					fmt.Sscanf(string(line), "#END %d", &got)
					if got != i {
						fmt.Fprintf(os.Stdout, "generator child out of step: run %d expected %d\n", got, i)
						os.Exit(4)
					}
					return out
				}
				var sc Scenario
				if err := json.Unmarshal(line, &sc); err != nil {
					fmt.Fprintf(os.Stdout, "generator child: bad scenario line: %v\n", err)
					os.Exit(4)
				}
				out = append(out, &sc)
			}
		}
	}
	for i := *worker; i < *runs; i += *workers {
		if budgetFails >= 2 || len(st.Failures) >= 6 || failedEvals >= 60 {
			// every further hang costs a full step budget, and state that leaks
			// from one call to the next (a poisoned pool) can make every later
			// evaluation slower and slower; the verdict is already a violation
			break
		}
		nruns++
		atomic.StoreInt64(&progress, time.Now().Unix())
		current.Store(fmt.Sprintf("%s/%s seed=%d run=%d (generation)", *prop, *phase, *seed, i))
		scns := gen(i)
		for j, s := range scns {
			s.Seed, s.Run, s.Sub, s.Variant = *seed, i, j, *variant
			atomic.StoreInt64(&progress, time.Now().Unix())
			current.Store(fmt.Sprintf("%s/%s seed=%d run=%d sub=%d", *prop, *phase, *seed, i, j))
			f := evaluate(s, st)
			verdict := "ok"
			if f != nil {
				verdict = f.Check
				failedEvals++
				if f.Check == "step-budget" || strings.Contains(f.Observed, "STEP-BUDGET") {
					budgetFails++
				}
				if !seen[f.Check] && len(st.Failures) < 6 {
					seen[f.Check] = true
					fs := s.clone()
					fs.Check, fs.Observed, fs.Expected, fs.Stack = f.Check, trunc(f.Observed, 4000), trunc(f.Expected, 4000), f.Stack
					st.Failures = append(st.Failures, fs)
				}
			}
			logDigest += mix64(s.digest() ^ hashString(verdict) ^ uint64(i)<<20 ^ uint64(j) ^ mix64(st.Outcome))
			if *worker == 0 && len(st.Samples) < 3 && (i/(*workers))%7 == 0 && j == len(scns)/2 {
				c := s.clone()
				if len(c.Doc) > 200 {
					c.Note = fmt.Sprintf("doc truncated for display from %d bytes", len(c.Doc))
					c.Doc = c.Doc[:200]
				}
				if len(c.Switches) > 48 {
					c.Note += fmt.Sprintf(" switch list truncated for display from %d entries", len(c.Switches))
					c.Switches = c.Switches[:48]
				}
				for ti := range c.Tasks {
					if r := c.Tasks[ti].Reader; r != nil && len(r.Ops) > 48 {
						r.Ops = r.Ops[:48]
					}
				}
				if c.Reader != nil && len(c.Reader.Ops) > 64 {
					c.Note += fmt.Sprintf(" read schedule truncated for display from %d reads", len(c.Reader.Ops))
					c.Reader.Ops = c.Reader.Ops[:64]
				}
				st.Samples = append(st.Samples, c)
			}
		}
	}
	o := st.export(*phase, *worker, nruns, logDigest)
	b, err := json.Marshal(o)
	if err != nil {
		die("marshal: %v", err)
	}
	if err := os.WriteFile(*out, b, 0o644); err != nil {
		die("write: %v", err)
	}
}

// ---- replay --------------------------------------------------------------------

// replayMain: exit 1 if the scenario fails with its recorded check id (or with
// any id when none is recorded), 0 if it passes, 3 if it fails differently.
func replayMain(args []string) {
	fs := flag.NewFlagSet("replay", flag.ExitOnError)
	nsites := fs.Int("nsites", 0, "")
	racelog := fs.String("racelog", "", "")
	quiet := fs.Bool("q", false, "")
	fs.Parse(args)
	if fs.NArg() != 1 {
		die("usage: replay [-nsites n] [-racelog f] file")
	}
	setupProcess(*nsites, *racelog)
	coldChild = true // a replay is a fresh process already
	s, err := readScenario(fs.Arg(0))
	if err != nil {
		die("%v", err)
	}
	f := evaluate(s, newStats())
	if f == nil {
		if !*quiet {
			fmt.Printf("REPLAY property=%s result=pass\n", s.Property)
		}
		os.Exit(0)
	}
	if !*quiet {
		fmt.Printf("REPLAY property=%s check=%s observed=%s\n", s.Property, f.Check, trunc(strings.ReplaceAll(f.Observed, "\n", "\\n"), 1500))
		if f.Expected != "" {
			fmt.Printf("REPLAY expected=%s\n", trunc(strings.ReplaceAll(f.Expected, "\n", "\\n"), 1500))
		}
	}
	if f.matches(s.Check) {
		os.Exit(1)
	}
	os.Exit(3)
}

// ---- minimise ------------------------------------------------------------------

func minimiseMain(args []string) {
	fs := flag.NewFlagSet("minimise", flag.ExitOnError)
	in := fs.String("in", "", "")
	out := fs.String("out", "", "")
	nsites := fs.Int("nsites", 0, "")
	racelog := fs.String("racelog", "", "")
	maxTests := fs.Int("max", 3000, "")
	secs := fs.Int("secs", 90, "")
	fs.Parse(args)
	s, err := readScenario(*in)
	if err != nil {
		die("%v", err)
	}
	check := s.Check
	var test func(c *Scenario) bool
	if check == "race" || s.Phase == "cold" {
		// the race detector reports a given pair of stacks once per process:
		// every candidate is replayed in a fresh process
		tmp := *out + ".cand"
		test = func(c *Scenario) bool {
			c.Check = check
			if err := writeScenario(tmp, c); err != nil {
				return false
			}
			cmd := exec.Command(os.Args[0], "replay", "-q", "-nsites", fmt.Sprint(*nsites), "-racelog", tmp+".racelog", tmp)
			cmd.Env = os.Environ()
			err := cmd.Run()
			if ee, ok := err.(*exec.ExitError); ok {
				return ee.ExitCode() == 1
			}
			return false
		}
		defer os.Remove(tmp)
		defer os.Remove(tmp + ".racelog")
	} else {
		setupProcess(*nsites, *racelog)
		test = func(c *Scenario) bool {
			f := evaluate(c, newStats())
			return f.matches(check)
		}
	}
	min, tests := minimise(s, test, *maxTests, time.Now().Add(time.Duration(*secs)*time.Second))
	// refresh observed/expected from the minimised scenario
	if check != "race" {
		if f := evaluate(min, newStats()); f.matches(check) {
			min.Observed, min.Expected, min.Stack = trunc(f.Observed, 4000), trunc(f.Expected, 4000), f.Stack
		}
	}
	min.Check = check
	min.Note = fmt.Sprintf("minimised with %d candidate executions from a %d-byte document", tests, len(s.Doc))
	if err := writeScenario(*out, min); err != nil {
		die("%v", err)
	}
}

// genMain prints the scenarios of run indices from..to (step stride), one
// JSON object per line; the driver uses it to rebuild a worker's history.
func genMain(args []string) {
	fs := flag.NewFlagSet("gen", flag.ExitOnError)
	prop := fs.String("prop", "", "")
	phase := fs.String("phase", "", "")
	seed := fs.Uint64("seed", 1, "")
	from := fs.Int("from", 0, "")
	to := fs.Int("to", 0, "")
	stride := fs.Int("stride", 1, "")
	variant := fs.String("variant", "", "")
	nsites := fs.Int("nsites", 0, "")
	tier := fs.String("tier", "quick", "")
	sitefile := fs.String("sitefile", "", "")
	framed := fs.Bool("framed", false, "print '#END <run>' after the scenarios of each run index")
	fs.Parse(args)
	setupProcess(*nsites, "")
	loadSyncSites(*sitefile)
	debug.SetGCPercent(100) // generation is not part of any recorded history
	tierThorough = *tier == "thorough"
	ph := findPhase(*prop, *phase)
	if ph == nil {
		die("no phase")
	}
	w := bufio.NewWriterSize(os.Stdout, 1<<20)
	defer w.Flush()
	for i := *from; i <= *to; i += *stride {
		if i < 0 {
			continue
		}
		var scns []*Scenario
		func() {
			// generation runs the code under test (reference parses, reference
			// walks over the library's accessors); a change that makes one of
			// them panic must not take the generator - and with it the whole
			// check - down: the run index is skipped and counted, the panic
			// itself is for the evaluations (which run under a guard) to report
			defer func() {
				if r := recover(); r != nil {
					scns = nil
					fmt.Fprintf(w, "#GENPANIC %d %s\n", i, strings.ReplaceAll(trunc(fmt.Sprint(r), 200), "\n", " "))
				}
			}()
			scns = ph.Gen(rngFor(*seed, *prop+"/"+*phase, i), i)
			for j, s := range scns {
				s.Env = genEnv(*seed, *prop+"/"+*phase, i, j)
			}
		}()
		for j, s := range scns {
			s.Seed, s.Run, s.Sub, s.Variant = *seed, i, j, *variant
			b, _ := json.Marshal(s)
			w.Write(b)
			w.WriteByte('\n')
		}
		if *framed {
			fmt.Fprintf(w, "#END %d\n", i)
			w.Flush()
		}
	}
}
