package main

import (
	"verif/simrt"
)

var nSites int // number of instrumented yield sites of this build (0 = plain)

// syncSites: yield sites adjacent to a synchronisation operation of the code
// under test (instrumenter kinds sync-pre / sync-post).
var syncSites = map[uint32]bool{}

var taskKinds = []struct {
	kind string
	w    int
}{{"parse", 18}, {"parse-render", 10}, {"stream", 14}, {"render", 26}, {"append", 8}, {"format", 14}, {"walk", 10}, {"inspect", 8}, {"walk-shared", 7}, {"stream-shared-ip", 7}, {"gc", 3}, {"parse-keep-inner", 4}, {"render-html", 9}, {"stream-std", 7}}

func genSched(r *Rng, phase string) []*Scenario {
	nd := r.Range(1, 4)
	s := &Scenario{Property: "C19", Phase: phase}
	card := r.Chance(0.12) // a scenario whose documents carry many distinct keys
	for i := 0; i < nd; i++ {
		if card {
			volume := r.Chance(0.4)
			d := cardinalityN(r, volume)
			if len(d) > 1500 && !volume {
				d = d[:1500]
			}
			if len(d) > 5000 {
				d = d[:5000]
			}
			s.Docs = append(s.Docs, d)
			continue
		}
		s.Docs = append(s.Docs, genDocMany(r, []int{120, 300, 300, 700}[r.Intn(4)], 0.015))
	}
	s.Doc = s.Docs[0]
	shared := genRenderScn(r)
	s.Render = &shared
	nt := r.Range(2, 5)
	if r.Chance(0.1) {
		nt = r.Range(6, 8)
	}
	if r.Chance(0.04) {
		// "any number of goroutines": more overlapping calls than any fixed
		// number of slots, shards or pooled buffers a change may provide
		nt = []int{9, 12, 17, 24, 33}[r.Intn(5)]
	}
	wsum := 0
	for _, k := range taskKinds {
		wsum += k.w
	}
	for i := 0; i < nt; i++ {
		x := r.Intn(wsum)
		kind := ""
		for _, k := range taskKinds {
			if x < k.w {
				kind = k.kind
				break
			}
			x -= k.w
		}
		t := TaskScn{Kind: kind, Doc: r.Intn(nd)}
		switch kind {
		case "parse-render":
			rs := genRenderScn(r)
			t.Render = &rs
		case "walk-shared":
			t.Walk = genWalkScn(r, 4)
			t.Walk.View, t.Walk.Reentrant, t.Walk.PreNil, t.Walk.PostNil, t.Walk.RootPath = "default", false, false, false, nil
		case "stream", "stream-shared-ip":
			d := s.Docs[t.Doc]
			rd := &ReaderScn{Terminal: r.Pick([]string{"separate", "with-data"}), ExtraCalls: 1}
			rd.Fault.Kind = "none"
			if r.Chance(0.25) {
				rd.Fault = FaultScn{Kind: "error", At: r.Intn(len(d) + 1), Err: r.Pick(faultErrKinds)}
			}
			rd.Ops, rd.Family = genSchedule(r, d, faultLimit(&Scenario{Doc: d, Reader: rd}), nil)
			rd.Scribble = genScribble(r)
			t.Reader = rd
		case "render", "append":
			rs := genRenderScn(r)
			rs.Shared = r.Chance(0.6)
			if rs.Shared {
				rs = shared
				rs.Shared = true
			}
			t.Render = &rs
			if kind == "render" && r.Chance(0.15) {
				t.Writer = &WriterScn{Flavour: "writer", FailAt: r.Intn(4), ByteBudget: -1, Full: r.Chance(0.25), Err: r.Pick(writerErrKinds)}
			}
		case "render-html":
			if r.Chance(0.1) {
				t.Writer = &WriterScn{Flavour: "writer", FailAt: r.Intn(4), ByteBudget: -1}
			}
		case "format":
			if r.Chance(0.15) {
				t.Writer = &WriterScn{Flavour: r.Pick(writerFlavours), FailAt: r.Intn(20), ByteBudget: -1, Full: r.Chance(0.25), Err: r.Pick(writerErrKinds)}
			}
		case "walk":
			t.Walk = genWalkScn(r, 4)
			t.Walk.Reentrant = r.Chance(0.3)
		}
		s.Tasks = append(s.Tasks, t)
	}
	s.Arena = r.Chance(0.35)
	env, ok := buildTaskEnv(s)
	if !ok {
		return nil
	}
	if nSites > 0 {
		simrt.EnableSiteHits(nSites)
	}
	_, steps := soloRun(env, s.Tasks)
	var hitSites []uint32
	for id, c := range simrt.SiteHits() {
		if c > 0 && id > 0 {
			hitSites = append(hitSites, uint32(id))
		}
	}
	simrt.EnableSiteHits(0)
	var total uint64
	for _, x := range steps {
		total += x
	}
	if total == 0 {
		total = 1
	}
	var hitSync []uint32
	for _, id := range hitSites {
		if syncSites[id] {
			hitSync = append(hitSync, id)
		}
	}
	if len(hitSync) > 0 && r.Chance(0.6) {
		// sync-targeted: park tasks right before / after a synchronisation
		// operation they execute (atomics, locks, pools, once).  Defects
		// without a data race in the detector's sense need exactly that.
		d := r.Range(1, 4)
		for i := 0; i < d; i++ {
			s.Switches = append(s.Switches, simrt.SwitchEntry{Task: r.Intn(nt), Quantum: 1 << 40, Site: hitSync[r.Intn(len(hitSync))], Nth: int32(r.Range(1, 3))})
		}
		return []*Scenario{s}
	}
	switch strat := r.Intn(10); {
	case strat < 5: // uniform small quanta
		Q := []int{2, 5, 20, 60, 200}[r.Intn(5)]
		var sum uint64
		for len(s.Switches) < 4000 && sum < total+uint64(Q) {
			q := int64(r.Range(1, Q))
			s.Switches = append(s.Switches, simrt.SwitchEntry{Task: r.Intn(nt), Quantum: q})
			sum += uint64(q)
		}
	case strat < 8: // PCT-style: few preemptions at chosen step indices
		d := r.Range(1, 6)
		for i := 0; i < d+1; i++ {
			t := r.Intn(nt)
			q := int64(1)
			if steps[t] > 0 {
				q = int64(r.U64()%steps[t]) + 1
			}
			s.Switches = append(s.Switches, simrt.SwitchEntry{Task: t, Quantum: q})
		}
	default: // site-targeted: park a task at the n-th hit of a chosen site
		d := r.Range(1, 5)
		for i := 0; i < d; i++ {
			e := simrt.SwitchEntry{Task: r.Intn(nt), Quantum: 1 << 40}
			if len(hitSites) > 0 {
				e.Site = hitSites[r.Intn(len(hitSites))]
				e.Nth = int32(r.Range(1, 6))
			} else {
				e.Quantum = int64(r.Range(1, 50))
			}
			s.Switches = append(s.Switches, e)
		}
	}
	return []*Scenario{s}
}
