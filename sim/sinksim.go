package main

import (
	"bufio"
	"bytes"
	"errors"
	"fmt"
	"os"
	"strings"

	"verif/simrt"
	"zombiezen.com/go/commonmark"
)

func safeParse(doc []byte) (blocks []*commonmark.RootBlock, refs commonmark.ReferenceMap, ok bool) {
	// on instrumented builds a hang in Parse is cut off by the step budget
	simrt.SetBudget(stepBudget(len(doc)))
	defer simrt.SetBudget(0)
	defer func() {
		if r := recover(); r != nil {
			blocks, refs, ok = nil, nil, false
		}
	}()
	blocks, refs = commonmark.Parse(append([]byte(nil), doc...))
	return blocks, refs, true
}

type sinkObs struct {
	Writes     int
	HealthyLen int
	Fired      bool
	Skipped    bool
	StdWriters int
	// FileWriters: failing *os.File writers exercised (closed file, file opened read-only)
	FileWriters int
	Collected   bool
}

// checkC20 evaluates the first sentence of C20 for one document and one
// writer behaviour (s.Writer == nil: healthy phase).
func checkC20(s *Scenario) (*Failure, *sinkObs) {
	obs := &sinkObs{}
	blocks, _, ok := safeParse(s.Doc)
	if !ok {
		obs.Skipped = true // a Parse panic is C04's finding, not C20's
		return nil, obs
	}
	before := snapAll(blocks)
	hw, w := newSimWriter(&WriterScn{Flavour: "writer", FailAt: -1, ByteBudget: -1})
	if err := formatBlocks(w, blocks); err != nil {
		return &Failure{Check: "healthy-err", Observed: fmt.Sprintf("Format on a healthy writer returned %v", err)}, obs
	}
	obs.Writes, obs.HealthyLen = hw.Calls, len(hw.Buf)
	if after := snapAll(blocks); after != before {
		return &Failure{Check: "tree-touched", Observed: firstDiff(before, after)}, obs
	}
	if s.Writer == nil {
		for i, fl := range []string{"writer", "stringwriter", "richwriter"} {
			w2, ww := newSimWriter(&WriterScn{Flavour: fl, FailAt: -1, ByteBudget: -1})
			if err := formatBlocks(ww, blocks); err != nil {
				return &Failure{Check: "healthy-err", Observed: fmt.Sprintf("Format run %d (%s) returned %v", i+2, fl, err)}, obs
			}
			if !bytes.Equal(w2.Buf, hw.Buf) {
				return &Failure{Check: "determinism", Observed: fmt.Sprintf("run %d (%s): %s", i+2, fl, firstDiff(string(hw.Buf), string(w2.Buf)))}, obs
			}
			if fl == "stringwriter" && w2.Calls > 0 && w2.StringCall == 0 {
				// informational only: the io.StringWriter path is an optimisation
				_ = fl
			}
		}
		// writers of standard-library types (a callee may type-switch on
		// well-known concrete writers or probe them for fast paths)
		for _, std := range []string{"bytes.Buffer", "strings.Builder", "bufio.Writer"} {
			var got []byte
			var err error
			switch std {
			case "bytes.Buffer":
				bb := bytes.NewBuffer(make([]byte, 0, len(hw.Buf)%61))
				bb.WriteString("pre|") // content the caller wrote before must stay
				err = formatBlocks(bb, blocks)
				got = bb.Bytes()
				if !bytes.HasPrefix(got, []byte("pre|")) {
					return &Failure{Check: "determinism", Observed: "Format into a *bytes.Buffer disturbed what the buffer already held"}, obs
				}
				got = got[4:]
			case "strings.Builder":
				var sb strings.Builder
				err = formatBlocks(&sb, blocks)
				got = []byte(sb.String())
			case "bufio.Writer":
				under, uw := newSimWriter(&WriterScn{Flavour: "writer", FailAt: -1, ByteBudget: -1})
				bw := bufio.NewWriterSize(uw, 16+len(hw.Buf)%300)
				err = formatBlocks(bw, blocks)
				if err == nil {
					err = bw.Flush() // the caller's job, as with any bufio.Writer
				}
				got = under.Buf
			}
			if err != nil {
				return &Failure{Check: "healthy-err", Observed: fmt.Sprintf("Format into a %s returned %v", std, err)}, obs
			}
			if !bytes.Equal(got, hw.Buf) {
				return &Failure{Check: "determinism", Observed: fmt.Sprintf("Format into a %s: %s", std, firstDiff(string(hw.Buf), string(got)))}, obs
			}
		}
		obs.StdWriters = 3
		// ... and *os.File values: healthy (an unlinked temporary file, read
		// back), and failing in the ways a real file fails - closed before the
		// call, opened read-only.  Every write of those fails with the file's
		// own error, so Format must report an error (a buffering layer whose
		// flush error is dropped reports nil) and nothing may reach the file.
		if len(hw.Buf) > 0 && len(hw.Buf)%3 == 0 {
			if f, err := os.CreateTemp(os.Getenv("VERIF_SCRATCH_DIR"), "simout"); err == nil {
				name := f.Name()
				ferr := formatBlocks(f, blocks)
				got, rerr := os.ReadFile(name)
				f.Close()
				if ferr != nil {
					os.Remove(name)
					return &Failure{Check: "healthy-err", Observed: fmt.Sprintf("Format into a healthy *os.File returned %v", ferr)}, obs
				}
				if rerr == nil && !bytes.Equal(got, hw.Buf) {
					os.Remove(name)
					return &Failure{Check: "determinism", Observed: "Format into an *os.File: " + firstDiff(string(hw.Buf), string(got))}, obs
				}
				// closed before the call
				cerr := formatBlocks(f, blocks)
				if cerr == nil {
					os.Remove(name)
					return &Failure{Check: "first-error", Observed: "Format into a CLOSED *os.File returned nil", Expected: "the file's error (" + os.ErrClosed.Error() + ")"}, obs
				}
				obs.FileWriters++
				// opened read-only
				if ro, oerr := os.Open(name); oerr == nil {
					rerr2 := formatBlocks(ro, blocks)
					ro.Close()
					if rerr2 == nil {
						os.Remove(name)
						return &Failure{Check: "first-error", Observed: "Format into an *os.File opened read-only returned nil", Expected: "the file's write error"}, obs
					}
					obs.FileWriters++
				}
				os.Remove(name)
			}
		}
		if after := snapAll(blocks); after != before {
			return &Failure{Check: "tree-touched", Observed: firstDiff(before, after)}, obs
		}
		return nil, obs
	}
	fwr, fw := newSimWriter(s.Writer)
	err := formatBlocks(fw, blocks)
	obs.Fired = fwr.Failed
	if after := snapAll(blocks); after != before {
		return &Failure{Check: "tree-touched", Observed: "after a failed Format: " + firstDiff(before, after)}, obs
	}
	if !fwr.Failed {
		if err != nil {
			return &Failure{Check: "healthy-err", Observed: fmt.Sprintf("writer never failed but Format returned %v", err)}, obs
		}
		if !bytes.Equal(fwr.Buf, hw.Buf) {
			return &Failure{Check: "determinism", Observed: firstDiff(string(hw.Buf), string(fwr.Buf))}, obs
		}
		return nil, obs
	}
	if s.Writer.GC {
		collect()
		obs.Collected = true
	}
	// a healthy run after the failed one must be unaffected by it
	aw, awr := newSimWriter(&WriterScn{Flavour: s.Writer.Flavour, FailAt: -1, ByteBudget: -1})
	if err2 := formatBlocks(awr, blocks); err2 != nil {
		return &Failure{Check: "healthy-err", Observed: fmt.Sprintf("Format on a healthy writer, after an earlier call failed, returned %v", err2)}, obs
	}
	if !bytes.Equal(aw.Buf, hw.Buf) {
		return &Failure{Check: "determinism", Observed: "healthy run after a failed run: " + firstDiff(string(hw.Buf), string(aw.Buf))}, obs
	}
	if fwr.AfterFail > 0 {
		return &Failure{Check: "write-after-fail", Observed: fmt.Sprintf("%d write calls after the failing call #%d (returned error: %v)", fwr.AfterFail, fwr.Calls-fwr.AfterFail-1, err)}, obs
	}
	if want := writerFaultErr(s.Writer.Err); err == nil || !errors.Is(err, want) || errors.Is(err, errWriteLater) {
		return &Failure{Check: "first-error", Observed: fmt.Sprintf("Format returned %v", err), Expected: "an error wrapping " + want.Error()}, obs
	}
	if !bytes.HasPrefix(hw.Buf, fwr.Buf) {
		return &Failure{Check: "prefix", Observed: "bytes accepted before the failure are not a prefix of the healthy output: " + firstDiff(string(hw.Buf), string(fwr.Buf))}, obs
	}
	return nil, obs
}
