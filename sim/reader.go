package main

import (
	"bufio"
	"bytes"
	"context"
	"errors"
	"fmt"
	"io"
	"io/fs"
	"net"
	"os"
	"strings"
	"sync"
	"syscall"
	"unicode/utf8"

	"verif/simrt"
)

// stub yield sites (outside the instrumenter's id range)
const (
	siteRead   = 1<<20 + 1
	siteWrite  = 1<<20 + 2
	sitePre    = 1<<20 + 3
	sitePost   = 1<<20 + 4
	siteFilter = 1<<20 + 5
	siteGC     = 1<<20 + 9
	siteChild  = 1<<20 + 6
)

var errSentinel = errors.New("simreader: injected failure")

type wrapsEOF struct{}

func (wrapsEOF) Error() string { return "simreader: wrapped end of stream" }
func (wrapsEOF) Unwrap() error { return io.EOF }

// tempErr is what a net.Error / EINTR-style failure looks like to a callee
// that probes for behaviour instead of comparing values.
type tempErr struct{}

func (tempErr) Error() string   { return "simreader: injected temporary failure" }
func (tempErr) Timeout() bool   { return true }
func (tempErr) Temporary() bool { return true }

// sliceErr is an error of a NON-COMPARABLE dynamic type (== on two such values
// panics); identity goes through its Is method.
type sliceErr struct{ tag []string }

func (e sliceErr) Error() string { return "simreader: injected failure of a non-comparable type" }
func (e sliceErr) Is(t error) bool {
	o, ok := t.(sliceErr)
	return ok && len(o.tag) > 0 && len(e.tag) > 0 && &o.tag[0] == &e.tag[0]
}

var (
	errPathEIO       = &fs.PathError{Op: "read", Path: "/sim/stream", Err: syscall.EIO}
	errNonComparable = sliceErr{tag: []string{"x"}}
)

func faultErr(kind string) error {
	switch kind {
	case "eintr":
		return syscall.EINTR
	case "eagain":
		return syscall.EAGAIN
	case "deadline":
		return os.ErrDeadlineExceeded
	case "patherror-eio":
		return errPathEIO
	case "timeout-temporary":
		return tempErr{}
	case "closed-pipe":
		return io.ErrClosedPipe
	case "fs-closed":
		return fs.ErrClosed
	case "net-closed":
		return net.ErrClosed
	case "no-progress":
		return io.ErrNoProgress
	case "short-buffer":
		return io.ErrShortBuffer
	case "ctx-canceled":
		return context.Canceled
	case "noncomparable":
		return errNonComparable
	case "sentinel":
		return errSentinel
	case "unexpected-eof":
		return io.ErrUnexpectedEOF
	case "wraps-eof":
		return wrapsEOF{}
	case "eof", "":
		return io.EOF
	}
	panic("unknown fault error kind " + kind)
}

type readEvent struct {
	Seq  int
	LenP int
	N    int
	Err  string
}

// SimReader serves a document according to an explicit schedule.  After it
// has reported its terminal condition (EOF or an injected error) it is NOT
// sticky: asked again, it keeps serving the bytes beyond the fault point and
// finally a clean EOF, so a parser that forgets its latch is exposed.
type SimReader struct {
	doc   []byte
	scn   *ReaderScn
	pos   int
	limit int
	opi   int

	terminated bool // terminal condition has been reported once
	termErr    error

	Hist        []readEvent
	seq         *int
	AfterTerm   int // calls made after the terminal condition
	EmptyReads  int
	DataWithErr int
	pending     error // ReadByte got its byte together with the terminal condition: reported by the next call
	Scribbled   int   // reads after which the unused part of p was overwritten
	Reads       int

	stdFile      *os.File      // Std == "os.File" (unlinked temp file; closed by reuse)
	stdBuf       *bytes.Buffer // Std == "bytes.Buffer"
	stdSlice     []byte        // Std == "bytes.Reader": the caller's slice under the reader
	Reused       bool          // the caller reused the reader's storage after the parse
	FileFallback bool          // no temp file could be created; a bytes.Reader stood in

	commSet bool // Std == "procfs-comm": the process name holds the document until reuse()

	growW  *os.File // Std == "os.File-grown": the handle the content arrives through after construction
	onRead func()   // called at the start of every Read (a reader that re-enters the library)
}

func newSimReader(doc []byte, scn *ReaderScn, seq *int) *SimReader {
	r := &SimReader{doc: doc, scn: scn, limit: len(doc), termErr: io.EOF, seq: seq}
	if scn.Fault.Kind != "none" && scn.Fault.Kind != "" {
		r.limit = scn.Fault.At
		if r.limit > len(doc) {
			r.limit = len(doc)
		}
		if r.limit < 0 {
			r.limit = 0
		}
		if scn.Fault.Kind == "error" {
			r.termErr = faultErr(scn.Fault.Err)
		}
	}
	return r
}

// Limit is the number of bytes the reader delivers before its terminal
// condition.
func (r *SimReader) Limit() int { return r.limit }

// Delivered is the number of bytes handed out so far.
func (r *SimReader) Delivered() int { return r.pos }

func (r *SimReader) record(lenp, n int, err error) {
	*r.seq++
	e := ""
	if err != nil {
		e = err.Error()
	}
	if len(r.Hist) < 4096 {
		r.Hist = append(r.Hist, readEvent{*r.seq, lenp, n, e})
	}
}

// scribble overwrites (at most 96 bytes of) the part of p the call did not
// fill, which the io.Reader contract allows a reader to use as scratch space.
func (r *SimReader) scribble(p []byte, n int) {
	if r.scn.Scribble == "" || n < 0 || n >= len(p) {
		return
	}
	rest := p[n:]
	if len(rest) > 96 {
		rest = rest[:96]
	}
	r.Scribbled++
	for i := range rest {
		switch r.scn.Scribble {
		case "newline":
			rest[i] = "\n\r"[i&1]
		case "nul":
			rest[i] = 0
		case "data":
			// bytes of the document that lie further ahead (or behind)
			if len(r.doc) > 0 {
				rest[i] = r.doc[(r.pos+7+i)%len(r.doc)]
			}
		default:
			rest[i] = 0xEE
		}
	}
}

func (r *SimReader) Read(p []byte) (n int, err error) {
	simrt.Yield(siteRead)
	r.Reads++
	if r.onRead != nil {
		r.onRead()
	}
	defer func() { r.scribble(p, n); r.record(len(p), n, err) }()
	if r.pending != nil {
		err, r.pending = r.pending, nil
		return 0, err
	}
	if r.terminated {
		r.AfterTerm++
		// recovering reader: serve what lies beyond the fault point
		if r.pos >= len(r.doc) {
			return 0, io.EOF
		}
		n = copy(p, r.doc[r.pos:])
		r.pos += n
		return n, nil
	}
	if r.pos >= r.limit {
		r.terminated = true
		return 0, r.termErr
	}
	want := r.limit - r.pos
	if r.opi < len(r.scn.Ops) {
		want = r.scn.Ops[r.opi]
		r.opi++
		if want == 0 {
			r.EmptyReads++
			return 0, nil
		}
	}
	if want > r.limit-r.pos {
		want = r.limit - r.pos
	}
	if want > len(p) {
		want = len(p)
	}
	n = copy(p[:want], r.doc[r.pos:])
	r.pos += n
	if r.pos >= r.limit {
		withData := r.scn.Terminal == "with-data"
		if r.scn.Fault.Kind == "error" || r.scn.Fault.Kind == "early-eof" {
			withData = r.scn.Fault.WithData
		}
		if withData && n > 0 {
			r.terminated = true
			r.DataWithErr++
			return n, r.termErr
		}
	}
	return n, nil
}

// richReader adds the optional interfaces a callee may probe for.  Len is a
// hint only (bytes of the document not yet handed out, whatever the fault
// will do), exactly as a file size is.
type richReader struct{ *SimReader }

func (r richReader) Len() int { return len(r.doc) - r.pos }

func (r richReader) ReadByte() (byte, error) {
	var b [1]byte
	for i := 0; i < 1000; i++ {
		n, err := r.SimReader.Read(b[:])
		if n == 1 {
			// a byte that came together with the terminal condition: the
			// condition is reported by the next call, as bufio.Reader does
			r.SimReader.pending = err
			return b[0], nil
		}
		if err != nil {
			return 0, err
		}
	}
	return 0, io.ErrNoProgress
}

func (r richReader) WriteTo(w io.Writer) (int64, error) {
	var total int64
	buf := make([]byte, 512)
	for {
		n, err := r.SimReader.Read(buf)
		if n > 0 {
			m, werr := w.Write(buf[:n])
			total += int64(m)
			if werr != nil {
				return total, werr
			}
		}
		if err == io.EOF {
			return total, nil
		}
		if err != nil {
			return total, err
		}
	}
}

// asReader returns the value handed to NewBlockParser.
func (r *SimReader) asReader() io.Reader {
	switch r.scn.Std {
	case "bytes.Buffer":
		r.stdBuf = bytes.NewBuffer(append(make([]byte, 0, r.limit+r.limit%97), r.doc[:r.limit]...))
		r.pos = r.limit // handed over as a whole
		return r.stdBuf
	case "bytes.Reader":
		r.stdSlice = append([]byte(nil), r.doc[:r.limit]...)
		r.pos = r.limit
		return bytes.NewReader(r.stdSlice)
	case "strings.Reader":
		r.pos = r.limit
		return strings.NewReader(string(r.doc[:r.limit]))
	case "os.Pipe":
		// a pipe: stat size 0, Seek fails, reads return what is buffered.  The
		// whole stream is written before the parse starts and the write end is
		// closed, so what each Read returns is still a function of the scenario.
		if r.limit <= 32<<10 {
			if pr, pw, err := os.Pipe(); err == nil {
				_, werr := pw.Write(r.doc[:r.limit])
				pw.Close()
				if werr == nil {
					r.pos = r.limit
					r.stdFile = pr
					return pr
				}
				pr.Close()
			}
		}
		r.FileFallback = true
		r.pos = r.limit
		return bytes.NewReader(append([]byte(nil), r.doc[:r.limit]...))
	case "procfs-comm":
		// a REGULAR file whose Stat size is 0 although reads deliver content
		// (every procfs file): /proc/self/comm holds the process name the
		// harness has just set to the document (<= 15 bytes + LF).  The content
		// is fixed before NewBlockParser sees the file and stays until the
		// parse is over, so it is "an input" whenever it is read - a size taken
		// from Stat is a hint, never the end of the stream.
		if f := openComm(r.doc[:r.limit]); f != nil {
			r.pos = r.limit
			r.stdFile = f
			r.commSet = true
			return f
		}
		r.FileFallback = true
		r.pos = r.limit
		return bytes.NewReader(append([]byte(nil), r.doc[:r.limit]...))
	case "os.File-grown":
		// a regular file that is still EMPTY when NewBlockParser is handed it
		// and gets its content (through another handle) before the first
		// NextBlock: a size taken at construction is stale
		f, err := os.CreateTemp(os.Getenv("VERIF_SCRATCH_DIR"), "simgrow")
		if err == nil {
			w, werr := os.OpenFile(f.Name(), os.O_WRONLY, 0)
			os.Remove(f.Name())
			if werr == nil {
				r.pos = r.limit
				r.stdFile = f
				r.growW = w
				return f
			}
			f.Close()
		}
		r.FileFallback = true
		r.pos = r.limit
		return bytes.NewReader(append([]byte(nil), r.doc[:r.limit]...))
	case "section-advanced", "bytes.Reader-advanced", "os.File":
		// a reader with a POSITION: the caller has already consumed k bytes
		// (front matter, an earlier document in the same file); the input is
		// what lies between the position and the end
		prefix := []byte("# consumed by the caller\n\n[skipped]: /before\n\n")
		prefix = prefix[:len(prefix)-(r.limit*5)%(len(prefix)/2)]
		if r.scn.Std == "os.File" && r.limit%3 == 0 {
			prefix = nil // a fresh file
		}
		backing := append(append([]byte(nil), prefix...), r.doc[:r.limit]...)
		r.pos = r.limit
		switch r.scn.Std {
		case "section-advanced":
			// junk beyond the section's end must never be seen
			sr := io.NewSectionReader(bytes.NewReader(append(backing, "\n\n# beyond the section\n"...)), 0, int64(len(backing)))
			sr.Seek(int64(len(prefix)), io.SeekStart)
			return sr
		case "bytes.Reader-advanced":
			br := bytes.NewReader(backing)
			br.Seek(int64(len(prefix)), io.SeekStart)
			return br
		default:
			f, err := os.CreateTemp(os.Getenv("VERIF_SCRATCH_DIR"), "simfile")
			if err == nil {
				os.Remove(f.Name())
				if _, werr := f.Write(backing); werr != nil {
					f.Close()
					err = werr
				}
			}
			if err != nil {
				// no scratch space: never the library's fault; fall back to
				// the in-memory positioned reader
				r.FileFallback = true
				br := bytes.NewReader(backing)
				br.Seek(int64(len(prefix)), io.SeekStart)
				return br
			}
			f.Seek(int64(len(prefix)), io.SeekStart)
			r.stdFile = f
			return f
		}
	case "bufio.Reader":
		var inner io.Reader = r
		if r.scn.Rich {
			inner = richReader{r}
		}
		return bufio.NewReaderSize(inner, 16+(len(r.doc)*7)%5000)
	}
	if r.scn.Rich {
		return richReader{r}
	}
	return r
}

// afterConstruct runs between NewBlockParser and the first NextBlock.
func (r *SimReader) afterConstruct() {
	if r.growW != nil {
		r.growW.Write(r.doc[:r.limit])
		r.growW.Close()
		r.growW = nil
	}
}

// reuse: the parse is over; the caller does what it likes with what it owns.
func (r *SimReader) reuse() {
	if r.commSet {
		restoreComm()
		r.commSet = false
	}
	switch {
	case r.stdFile != nil:
		r.stdFile.Close()
		r.stdFile = nil
	case r.stdBuf != nil:
		r.stdBuf.Reset()
		r.stdBuf.Write(bytes.Repeat([]byte{0xAA}, r.stdBuf.Cap()))
		r.Reused = true
	case r.stdSlice != nil:
		for i := range r.stdSlice {
			r.stdSlice[i] = 0xAA
		}
		r.Reused = true
	}
}

func (r *SimReader) histString() string {
	s := ""
	for i, e := range r.Hist {
		if i >= 40 {
			s += fmt.Sprintf(" …(%d more)", len(r.Hist)-i)
			break
		}
		s += fmt.Sprintf(" #%d Read(%d)=(%d,%s)", e.Seq, e.LenP, e.N, e.Err)
	}
	return s
}

// ---- schedule generation -------------------------------------------------

// cutPoints returns interesting byte positions of doc: between CR and LF,
// 1 and 2 bytes into every NUL run, inside multi-byte sequences, directly
// after blank lines, plus extra (block-delivery points of a fault-free run).
func cutPoints(doc []byte, extra []int) (crlf, nul, rune_, blank []int) {
	for i := 0; i < len(doc); i++ {
		c := doc[i]
		switch {
		case c == '\r' && i+1 < len(doc) && doc[i+1] == '\n':
			crlf = append(crlf, i+1)
		case c == 0:
			if i == 0 || doc[i-1] != 0 {
				j := i
				for j < len(doc) && doc[j] == 0 {
					j++
				}
				if j-i >= 2 {
					nul = append(nul, i+1)
				}
				if j-i >= 3 {
					nul = append(nul, i+2)
				}
				nul = append(nul, i, j)
			}
		case c >= 0xc0:
			_, sz := utf8.DecodeRune(doc[i:])
			for k := 1; k < sz; k++ {
				rune_ = append(rune_, i+k)
			}
			if sz == 1 && i+1 < len(doc) {
				rune_ = append(rune_, i+1)
			}
		case c == '\n' || c == '\r':
			// directly after a blank line
			j := i + 1
			for j < len(doc) && (doc[j] == ' ' || doc[j] == '\t') {
				j++
			}
			if j < len(doc) && (doc[j] == '\n' || doc[j] == '\r') {
				blank = append(blank, j+1)
			}
		}
	}
	return
}

var scheduleFamilies = []string{"whole", "bytes1", "uniform", "geometric", "large-tiny", "boundary", "boundary+1"}

// genSchedule draws one read schedule for doc[:limit].
func genSchedule(r *Rng, doc []byte, limit int, deliveryPoints []int) ([]int, string) {
	fam := scheduleFamilies[r.Intn(len(scheduleFamilies))]
	var ops []int
	switch fam {
	case "whole":
		ops = nil
	case "bytes1":
		for i := 0; i < limit; i++ {
			ops = append(ops, 1)
		}
	case "uniform":
		m := []int{2, 3, 7, 16, 64}[r.Intn(5)]
		for left := limit; left > 0; {
			n := r.Range(1, m)
			ops = append(ops, n)
			left -= n
		}
	case "geometric":
		for left := limit; left > 0; {
			n := 1
			for r.Chance(0.6) && n < 256 {
				n *= 2
			}
			n = r.Range((n+1)/2, n)
			ops = append(ops, n)
			left -= n
		}
	case "large-tiny":
		big := limit * r.Range(30, 95) / 100
		if big > 0 {
			ops = append(ops, big)
		}
		for left := limit - big; left > 0; left-- {
			ops = append(ops, 1)
		}
	case "boundary", "boundary+1":
		crlf, nul, rn, blank := cutPoints(doc[:limit], nil)
		var cuts []int
		add := func(ps []int, p float64) {
			for _, x := range ps {
				if r.Chance(p) {
					cuts = append(cuts, x)
				}
			}
		}
		add(crlf, 0.9)
		add(nul, 0.8)
		add(rn, 0.7)
		add(blank, 0.6)
		add(deliveryPoints, 0.7)
		if fam == "boundary+1" {
			for _, x := range deliveryPoints {
				if r.Chance(0.5) {
					cuts = append(cuts, x+1, x-1)
				}
			}
			for i := 0; i < 3; i++ {
				cuts = append(cuts, r.Intn(limit+1))
			}
		}
		ops = cutsToOps(cuts, limit)
	}
	// one long burst of consecutive empty reads (io.Reader discourages but
	// allows them; a consumer must not take any number of them for the end)
	if r.Chance(0.04) {
		at := 0
		if len(ops) > 0 {
			at = r.Intn(len(ops) + 1)
		}
		burst := make([]int, []int{99, 100, 101, 128, 257}[r.Intn(5)])
		out := append([]int{}, ops[:at]...)
		out = append(out, burst...)
		if at == len(ops) && len(ops) == 0 && limit > 0 {
			out = append(out, limit)
		}
		ops = append(out, ops[at:]...)
		fam += "+burst"
	}
	// empty reads
	if p := []float64{0, 0, 0.05, 0.15, 0.30}[r.Intn(5)]; p > 0 {
		var out []int
		for _, n := range ops {
			for r.Chance(p) {
				out = append(out, 0)
			}
			out = append(out, n)
		}
		for r.Chance(p) || (len(ops) == 0 && len(out) == 0) {
			out = append(out, 0)
		}
		ops = out
	}
	return ops, fam
}

func cutsToOps(cuts []int, limit int) []int {
	seen := make([]bool, limit+1)
	for _, c := range cuts {
		if c > 0 && c < limit {
			seen[c] = true
		}
	}
	var ops []int
	prev := 0
	for i := 1; i < limit; i++ {
		if seen[i] {
			ops = append(ops, i-prev)
			prev = i
		}
	}
	if limit > prev {
		ops = append(ops, limit-prev)
	}
	return ops
}

// faultErrKinds: the four original values (three times as likely each) plus
// errors of the standard library that a callee may single out by value
// (errors.Is against io.ErrClosedPipe, fs.ErrClosed, ...) or by BEHAVIOUR
// (Temporary(), Timeout(): EINTR, EAGAIN, deadline) - "all error values".
var faultErrKinds = []string{"sentinel", "unexpected-eof", "wraps-eof", "eof", "sentinel", "unexpected-eof", "wraps-eof", "eof", "sentinel", "unexpected-eof", "wraps-eof", "eof",
	"eintr", "eagain", "deadline", "patherror-eio", "timeout-temporary", "closed-pipe", "fs-closed", "net-closed", "no-progress", "short-buffer", "ctx-canceled", "noncomparable"}

// genFaultPoint picks a fault position biased to in-flight state.
func genFaultPoint(r *Rng, doc []byte, deliveryPoints []int) int {
	crlf, nul, rn, blank := cutPoints(doc, nil)
	pools := [][]int{crlf, nul, rn, blank, deliveryPoints}
	if r.Chance(0.6) {
		start := r.Intn(len(pools))
		for i := 0; i < len(pools); i++ {
			p := pools[(start+i)%len(pools)]
			if len(p) > 0 {
				k := p[r.Intn(len(p))]
				if r.Chance(0.25) {
					k += r.Range(-1, 1)
				}
				if k < 0 {
					k = 0
				}
				if k > len(doc) {
					k = len(doc)
				}
				return k
			}
		}
	}
	return r.Intn(len(doc) + 1)
}

// ---- /proc/self/comm as a reader value ------------------------------------

var (
	commMu    sync.Mutex
	commBusy  bool
	commSaved []byte
)

// openComm sets the process name to content (which must end in LF), checks
// through a separate handle that the kernel now serves exactly content, and
// returns /proc/self/comm opened for reading - or nil (no procfs, content the
// kernel does not keep verbatim, another parse of this process is using it).
func openComm(content []byte) *os.File {
	n := len(content)
	if n < 2 || n > 16 || content[n-1] != '\n' || bytes.IndexByte(content, 0) >= 0 {
		return nil
	}
	commMu.Lock()
	defer commMu.Unlock()
	if commBusy {
		return nil
	}
	old, err := os.ReadFile("/proc/self/comm")
	if err != nil {
		return nil
	}
	if err := os.WriteFile("/proc/self/comm", content[:n-1], 0); err != nil {
		return nil
	}
	back, err := os.ReadFile("/proc/self/comm")
	if err != nil || !bytes.Equal(back, content) {
		os.WriteFile("/proc/self/comm", bytes.TrimSuffix(old, []byte("\n")), 0)
		return nil
	}
	f, err := os.Open("/proc/self/comm")
	if err != nil {
		os.WriteFile("/proc/self/comm", bytes.TrimSuffix(old, []byte("\n")), 0)
		return nil
	}
	if st, err := f.Stat(); err != nil || !st.Mode().IsRegular() || st.Size() != 0 {
		f.Close()
		os.WriteFile("/proc/self/comm", bytes.TrimSuffix(old, []byte("\n")), 0)
		return nil
	}
	commBusy, commSaved = true, bytes.TrimSuffix(old, []byte("\n"))
	return f
}

func restoreComm() {
	commMu.Lock()
	defer commMu.Unlock()
	if commBusy {
		os.WriteFile("/proc/self/comm", commSaved, 0)
		commBusy = false
	}
}
