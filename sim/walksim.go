package main

import (
	"bytes"
	"fmt"
	"strings"

	"verif/simrt"
	"zombiezen.com/go/commonmark"
)

// walkEvent is one callback as the caller sees it.
type walkEvent struct {
	Post        bool
	Node        commonmark.Node
	Parent      commonmark.Node
	ParentBlock *commonmark.Block
	Index       int
}

type walkView struct {
	root       commonmark.Node
	childCount func(commonmark.Node) int // nil = defaults
	child      func(commonmark.Node, int) commonmark.Node
}

func (v *walkView) count(n commonmark.Node) int {
	if v.childCount != nil {
		return v.childCount(n)
	}
	return n.ChildCount()
}

func (v *walkView) at(n commonmark.Node, i int) commonmark.Node {
	if v.child != nil {
		return v.child(n, i)
	}
	return n.Child(i)
}

func nodeKey(n commonmark.Node) uint64 {
	sp := n.Span()
	h := uint64(sp.Start)*1000003 + uint64(sp.End)*7919
	if b := n.Block(); b != nil {
		h = h*31 + uint64(b.Kind()) + 1000
	} else if in := n.Inline(); in != nil {
		h = h*31 + uint64(in.Kind())
	}
	return h
}

// makeView builds the child accessors for a walk scenario.
func makeView(ws *WalkScn, blocks []*commonmark.RootBlock) *walkView {
	v := &walkView{}
	var zero commonmark.Node
	virtual := func(n commonmark.Node) bool { return n == zero }
	pickRoot := func() commonmark.Node {
		if len(blocks) == 0 {
			return zero
		}
		bi := ws.Block % len(blocks)
		if bi < 0 {
			bi = 0
		}
		n := blocks[bi].AsNode()
		// the walk may start at any node of the tree, not only at a root block
		for _, p := range ws.RootPath {
			c := n.ChildCount()
			if c == 0 {
				break
			}
			if p < 0 {
				p = -p
			}
			n = n.Child(p % c)
		}
		return n
	}
	switch ws.View {
	case "default", "":
		v.root = pickRoot()
	case "virtual-root":
		v.root = zero
		v.childCount = func(n commonmark.Node) int {
			if virtual(n) {
				return len(blocks)
			}
			return n.ChildCount()
		}
		v.child = func(n commonmark.Node, i int) commonmark.Node {
			simrt.Yield(siteChild)
			if virtual(n) {
				return blocks[i].AsNode()
			}
			return n.Child(i)
		}
	case "reversed":
		v.root = zero
		v.childCount = func(n commonmark.Node) int {
			if virtual(n) {
				return len(blocks)
			}
			return n.ChildCount()
		}
		v.child = func(n commonmark.Node, i int) commonmark.Node {
			if virtual(n) {
				return blocks[len(blocks)-1-i].AsNode()
			}
			return n.Child(n.ChildCount() - 1 - i)
		}
	case "filtered":
		v.root = zero
		visible := func(n commonmark.Node) []int {
			var cnt int
			if virtual(n) {
				cnt = len(blocks)
			} else {
				cnt = n.ChildCount()
			}
			var idx []int
			for i := 0; i < cnt; i++ {
				var c commonmark.Node
				if virtual(n) {
					c = blocks[i].AsNode()
				} else {
					c = n.Child(i)
				}
				if mix64(ws.HideSeed^nodeKey(c)^uint64(i)<<40)%4 != 0 {
					idx = append(idx, i)
				}
			}
			return idx
		}
		v.childCount = func(n commonmark.Node) int { return len(visible(n)) }
		v.child = func(n commonmark.Node, i int) commonmark.Node {
			j := visible(n)[i]
			if virtual(n) {
				return blocks[j].AsNode()
			}
			return n.Child(j)
		}
	case "virtual-mixed":
		// a zero-Node root over a PRNG-chosen selection of ARBITRARY nodes of
		// the document (blocks and inlines from any depth, e.g. "all headings and
		// links"), default children below them
		v.root = zero
		var all []commonmark.Node
		var collect func(n commonmark.Node)
		collect = func(n commonmark.Node) {
			all = append(all, n)
			for i, c := 0, n.ChildCount(); i < c; i++ {
				collect(n.Child(i))
			}
		}
		for _, b := range blocks {
			collect(b.AsNode())
		}
		var sel []commonmark.Node
		for i, n := range all {
			if mix64(ws.HideSeed^uint64(i)*0x9e3779b97f4a7c15)%5 < 2 {
				sel = append(sel, n)
			}
		}
		if ws.HideSeed&1 == 1 {
			for i, j := 0, len(sel)-1; i < j; i, j = i+1, j-1 {
				sel[i], sel[j] = sel[j], sel[i]
			}
		}
		if len(sel) > 64 {
			sel = sel[:64]
		}
		v.childCount = func(n commonmark.Node) int {
			if virtual(n) {
				return len(sel)
			}
			return n.ChildCount()
		}
		v.child = func(n commonmark.Node, i int) commonmark.Node {
			if virtual(n) {
				return sel[i]
			}
			return n.Child(i)
		}
	case "grafted":
		// custom child functions ATTACH children where the parsed tree has none:
		// selected childless nodes of the host tree (an HTML comment used as an
		// include marker, a text leaf) get the root blocks of a separately parsed
		// donor document as virtual children.  Donor nodes are never selected
		// themselves, so the view is finite.
		v.root = pickRoot()
		donor, _ := commonmark.Parse([]byte("graft *x* [l](/u)\n\n- y\n"))
		host := map[commonmark.Node]bool{}
		var collect func(n commonmark.Node)
		collect = func(n commonmark.Node) {
			host[n] = true
			for i, c := 0, n.ChildCount(); i < c; i++ {
				collect(n.Child(i))
			}
		}
		for _, b := range blocks {
			collect(b.AsNode())
		}
		grafts := func(n commonmark.Node) int {
			if n != zero && host[n] && n.ChildCount() == 0 && mix64(ws.HideSeed^nodeKey(n)^0x6a09e667)%3 == 0 {
				return 1 + int(mix64(ws.HideSeed^nodeKey(n))%2)
			}
			return 0
		}
		v.childCount = func(n commonmark.Node) int {
			if g := grafts(n); g > 0 {
				return g
			}
			return n.ChildCount()
		}
		v.child = func(n commonmark.Node, i int) commonmark.Node {
			if g := grafts(n); g > 0 {
				return donor[i%len(donor)].AsNode()
			}
			return n.Child(i)
		}
	case "grouped":
		// the zero Node as an INTERIOR node: the children of one block (the
		// first in document order, below the root, that the seed selects) are
		// presented under a single anonymous group node, Node{}.  The group is
		// not a block, so the nearest enclosing block of what lies below it is
		// still the block above it.
		v.root = pickRoot()
		var grouped commonmark.Node
		var find func(n commonmark.Node) bool
		find = func(n commonmark.Node) bool {
			if n.Block() != nil && n.ChildCount() > 0 && mix64(ws.HideSeed^nodeKey(n)^0xbb67ae85)%3 != 0 {
				grouped = n
				return true
			}
			for i, c := 0, n.ChildCount(); i < c; i++ {
				if find(n.Child(i)) {
					return true
				}
			}
			return false
		}
		if v.root != zero {
			find(v.root)
		}
		v.childCount = func(n commonmark.Node) int {
			switch {
			case grouped == zero:
				return n.ChildCount()
			case n == grouped:
				return 1
			case n == zero:
				return grouped.ChildCount()
			}
			return n.ChildCount()
		}
		v.child = func(n commonmark.Node, i int) commonmark.Node {
			switch {
			case grouped == zero:
				return n.Child(i)
			case n == grouped:
				return zero
			case n == zero:
				return grouped.Child(i)
			}
			return n.Child(i)
		}
	case "count-only":
		// only ChildCount is supplied: selected nodes are presented as leaves;
		// Child stays the default accessor
		v.root = pickRoot()
		v.childCount = func(n commonmark.Node) int {
			if n != v.root && mix64(ws.HideSeed^nodeKey(n))%3 == 0 {
				return 0
			}
			c := n.ChildCount()
			if c > 1 && mix64(ws.HideSeed^nodeKey(n)^77)%4 == 0 {
				return c - 1 // hide the last child
			}
			return c
		}
	case "child-only":
		// only Child is supplied: children are presented in reverse order;
		// ChildCount stays the default accessor
		v.root = pickRoot()
		v.child = func(n commonmark.Node, i int) commonmark.Node {
			return n.Child(n.ChildCount() - 1 - i)
		}
	default:
		panic("unknown view " + ws.View)
	}
	return v
}

type tapeReader struct {
	tape string
	pos  int
	skip int // callbacks answered "descend / continue" before the tape starts (WalkScn.TapeSkip)
}

// walkCallbackPanic is the value a callback panics with when the tape says
// 'P': the callback leaves Walk by unwinding instead of returning (a test's
// t.Fatal, a handler's recover() further up).  The harness recovers it.
type walkCallbackPanic struct{}

// next returns the decision for the next callback: true = descend/continue.
// 'P' on the tape makes the callback panic instead of returning.
func (t *tapeReader) next() bool {
	if t.skip > 0 {
		t.skip--
		return true
	}
	d := true
	if t.pos < len(t.tape) {
		if t.tape[t.pos] == 'P' {
			t.pos++
			panic(walkCallbackPanic{})
		}
		d = t.tape[t.pos] != '0'
	}
	t.pos++
	return d
}

// refWalk is the reference model: a plain recursive walker.
func refWalk(v *walkView, ws *WalkScn) []walkEvent {
	var hist []walkEvent
	tp := &tapeReader{tape: ws.Tape, skip: ws.TapeSkip}
	var rec func(n, parent commonmark.Node, pb *commonmark.Block, idx int) bool
	rec = func(n, parent commonmark.Node, pb *commonmark.Block, idx int) (abort bool) {
		if !ws.PreNil {
			hist = append(hist, walkEvent{false, n, parent, pb, idx})
			if !tp.next() {
				return false
			}
		}
		nb := pb
		if b := n.Block(); b != nil {
			nb = b
		}
		for i, c := 0, v.count(n); i < c; i++ {
			if rec(v.at(n, i), n, nb, i) {
				return true
			}
		}
		if !ws.PostNil {
			hist = append(hist, walkEvent{true, n, parent, pb, idx})
			if !tp.next() {
				return true
			}
		}
		return false
	}
	func() {
		defer func() {
			if r := recover(); r != nil {
				if _, ok := r.(walkCallbackPanic); !ok {
					panic(r)
				}
			}
		}()
		rec(v.root, commonmark.Node{}, nil, -1)
	}()
	return hist
}

type walkOverrun struct{}

type walkObs struct {
	Hist        []walkEvent
	CursorFail  string
	NestedFail  string
	Callbacks   int
	Prunes      int
	Aborts      int
	NestedWalks int
	Unwound     bool // a callback left Walk by panicking (injected)
	// SequelHist: callbacks of a second, complete walk of the same root that
	// was given the very same *WalkOptions value right after the first walk
	// ended early (abort or unwinding); SequelRan says whether it was run
	SequelHist  []walkEvent
	SequelRan   bool
	Warmed      bool // the options value had served a complete walk before
	Collections int  // garbage collections the scenario placed
}

// realWalk drives commonmark.Walk with the same tape.
func realWalk(v *walkView, ws *WalkScn, blocks []*commonmark.RootBlock, histCap int, maxCallbacks int) *walkObs {
	obs := &walkObs{}
	tp := &tapeReader{tape: ws.Tape, skip: ws.TapeSkip}
	var zero commonmark.Node
	inspect := func(c *commonmark.Cursor, post bool) walkEvent {
		ev := walkEvent{post, c.Node(), c.Parent(), c.ParentBlock(), c.Index()}
		if obs.CursorFail == "" {
			if c.Node() == v.root {
				if c.Parent() != zero || c.Index() >= 0 {
					obs.CursorFail = fmt.Sprintf("callback %d (root): parent=%v index=%d", obs.Callbacks, describeNode(c.Parent()), c.Index())
				}
			} else {
				p := c.Parent()
				ok := p != zero || v.child != nil
				if ok {
					ok = c.Index() >= 0 && c.Index() < v.count(p)
				}
				if ok {
					ok = v.at(p, c.Index()) == c.Node()
				}
				if !ok {
					obs.CursorFail = fmt.Sprintf("callback %d: Parent().Child(Index()) != Node(): node=%s parent=%s index=%d", obs.Callbacks, describeNode(c.Node()), describeNode(p), c.Index())
				}
			}
		}
		if obs.Callbacks > maxCallbacks {
			panic(walkOverrun{})
		}
		return ev
	}
	var sameOpts *commonmark.WalkOptions
	depth, nestedCnt := 0, 0
	sequel := false
	sequelCap := 300000
	warming := false
	nested := func(c *commonmark.Cursor, before walkEvent) {
		if !ws.Reentrant || len(blocks) == 0 || obs.NestedWalks >= 150 {
			return // at most 150 nested walks per walk: enough to overlap every kind of frame
		}
		// a complete nested walk over another block, with its own callbacks
		obs.NestedWalks++
		other := blocks[(obs.Callbacks*7+1)%len(blocks)].AsNode()
		if ws.SameOpts && sameOpts != nil {
			// the nested walk gets the outer walk's own *WalkOptions; its
			// callbacks see depth > 0 and answer from a counter
			if v.root == (commonmark.Node{}) {
				other = v.root // virtual views: the only root their child functions understand
			}
			depth++
			nestedCnt = 0
			commonmark.Walk(other, sameOpts)
			depth--
		} else {
			cnt := 0
			commonmark.Walk(other, &commonmark.WalkOptions{
				Pre:  func(nc *commonmark.Cursor) bool { cnt++; return cnt < 64 },
				Post: func(nc *commonmark.Cursor) bool { return cnt < 48 },
			})
		}
		after := walkEvent{before.Post, c.Node(), c.Parent(), c.ParentBlock(), c.Index()}
		if after != before && obs.NestedFail == "" {
			obs.NestedFail = fmt.Sprintf("callback %d: cursor changed by a nested walk: before %s, after %s", obs.Callbacks, describeEvent(before), describeEvent(after))
		}
	}
	opts := &commonmark.WalkOptions{ChildCount: v.childCount, Child: v.child}
	if !ws.PreNil {
		opts.Pre = func(c *commonmark.Cursor) bool {
			if warming {
				return true
			}
			if depth > 0 {
				nestedCnt++
				return nestedCnt < 64
			}
			if sequel {
				obs.SequelHist = append(obs.SequelHist, walkEvent{false, c.Node(), c.Parent(), c.ParentBlock(), c.Index()})
				if len(obs.SequelHist) > sequelCap {
					panic(walkOverrun{})
				}
				return true
			}
			simrt.Yield(sitePre)
			if ws.GC && obs.Callbacks == 2 {
				collect() // in the middle of the walk
				obs.Collections++
			}
			ev := inspect(c, false)
			nested(c, ev)
			obs.Callbacks++
			if len(obs.Hist) < histCap {
				obs.Hist = append(obs.Hist, ev)
			}
			d := tp.next()
			if !d {
				obs.Prunes++
			}
			return d
		}
	}
	if !ws.PostNil {
		opts.Post = func(c *commonmark.Cursor) bool {
			if warming {
				return true
			}
			if depth > 0 {
				nestedCnt++
				return nestedCnt < 48
			}
			if sequel {
				obs.SequelHist = append(obs.SequelHist, walkEvent{true, c.Node(), c.Parent(), c.ParentBlock(), c.Index()})
				if len(obs.SequelHist) > sequelCap {
					panic(walkOverrun{})
				}
				return true
			}
			simrt.Yield(sitePost)
			ev := inspect(c, true)
			nested(c, ev)
			obs.Callbacks++
			if len(obs.Hist) < histCap {
				obs.Hist = append(obs.Hist, ev)
			}
			d := tp.next()
			if !d {
				obs.Aborts++
			}
			return d
		}
	}
	sameOpts = opts
	if ws.Warm {
		warming = true
		commonmark.Walk(v.root, opts)
		warming = false
		obs.Warmed = true
		if ws.GC {
			collect()
			obs.Collections++
		}
	}
	func() {
		defer func() {
			if r := recover(); r != nil {
				if _, ok := r.(walkCallbackPanic); !ok {
					panic(r)
				}
				obs.Unwound = true
			}
		}()
		commonmark.Walk(v.root, opts)
	}()
	if (obs.Aborts > 0 || obs.Unwound) && maxCallbacks < 1<<30 {
		// the caller keeps its options value and walks again, to completion
		obs.SequelRan = true
		sequel = true
		// a complete walk makes at most two callbacks per node of the view;
		// anything beyond that is a runaway walk (the bound follows the tree:
		// a list of 130 000 items legitimately needs 800 000 callbacks)
		sequelCap = 2*countNodes(v, v.root, 1<<22) + 16
		if ws.GC {
			collect()
			obs.Collections++
		}
		tp.tape, tp.pos = "", 0
		func() {
			defer func() {
				if r := recover(); r != nil {
					if _, ok := r.(walkOverrun); !ok {
						panic(r)
					}
					obs.SequelHist = append(obs.SequelHist, walkEvent{Index: -99}) // marks an overrun
				}
			}()
			commonmark.Walk(v.root, opts)
		}()
		sequel = false
	}
	return obs
}

// countNodes counts the nodes of the view below (and including) n, up to limit.
func countNodes(v *walkView, n commonmark.Node, limit int) int {
	total := 0
	stack := []commonmark.Node{n}
	for len(stack) > 0 && total < limit {
		cur := stack[len(stack)-1]
		stack = stack[:len(stack)-1]
		total++
		for i, c := 0, v.count(cur); i < c; i++ {
			stack = append(stack, v.at(cur, i))
		}
	}
	return total
}

func describeNode(n commonmark.Node) string {
	if b := n.Block(); b != nil {
		return fmt.Sprintf("B:%v%v", b.Kind(), b.Span())
	}
	if in := n.Inline(); in != nil {
		return fmt.Sprintf("I:%v%v", in.Kind(), in.Span())
	}
	return "<zero>"
}

func describeEvent(e walkEvent) string {
	k := "pre"
	if e.Post {
		k = "post"
	}
	pb := "<nil>"
	if e.ParentBlock != nil {
		pb = describeNode(e.ParentBlock.AsNode())
	}
	return fmt.Sprintf("%s(%s parent=%s idx=%d pblock=%s)", k, describeNode(e.Node), describeNode(e.Parent), e.Index, pb)
}

func describeHist(h []walkEvent, around int) string {
	lo := around - 3
	if lo < 0 {
		lo = 0
	}
	hi := around + 3
	if hi > len(h) {
		hi = len(h)
	}
	var sb strings.Builder
	fmt.Fprintf(&sb, "len=%d", len(h))
	for i := lo; i < hi; i++ {
		fmt.Fprintf(&sb, " [%d]%s", i, describeEvent(h[i]))
	}
	return sb.String()
}

func histDigest(h []walkEvent) string {
	var sb strings.Builder
	for _, e := range h {
		sb.WriteString(describeEvent(e))
		sb.WriteByte(';')
	}
	return sb.String()
}

// treeForWalk builds the tree of a walk scenario (WalkScn.Tree).
func treeForWalk(doc []byte, ws *WalkScn) []*commonmark.RootBlock {
	if ws.Tree == "" {
		blocks, _ := commonmark.Parse(append([]byte(nil), doc...))
		return blocks
	}
	p := commonmark.NewBlockParser(bytes.NewReader(append([]byte(nil), doc...)))
	var blocks []*commonmark.RootBlock
	refs := make(commonmark.ReferenceMap)
	for {
		b, err := p.NextBlock()
		if err != nil || b == nil {
			break
		}
		blocks = append(blocks, b)
		refs.Extract(b.Source, b.AsNode())
		if len(blocks) > 4*len(doc)+16 {
			break
		}
	}
	if ws.Tree == "unparsed" {
		return blocks
	}
	// the caller looks at what it has received before completing it
	all := func(*commonmark.Cursor) bool { return true }
	for _, b := range blocks {
		commonmark.Walk(b.AsNode(), &commonmark.WalkOptions{Pre: all, Post: all})
	}
	if v := makeView(ws, blocks); v.childCount != nil || v.child != nil {
		commonmark.Walk(v.root, &commonmark.WalkOptions{Pre: all, Post: all, ChildCount: v.childCount, Child: v.child})
	}
	ip := &commonmark.InlineParser{ReferenceMatcher: refs}
	for _, b := range blocks {
		ip.Rewrite(b)
	}
	return blocks
}

// checkC18 runs one walk scenario against the reference model.
func checkC18(s *Scenario) (*Failure, *walkObs) {
	ws := s.Walk
	blocks := treeForWalk(s.Doc, ws)
	v := makeView(ws, blocks)
	want := refWalk(v, ws)
	var obs *walkObs
	overrun := false
	func() {
		defer func() {
			if r := recover(); r != nil {
				if _, ok := r.(walkOverrun); ok {
					overrun = true
					return
				}
				panic(r)
			}
		}()
		obs = realWalk(v, ws, blocks, len(want)+8, len(want)+8)
	}()
	if overrun {
		return &Failure{Check: "history", Observed: "Walk made more callbacks than the reference model", Expected: fmt.Sprintf("%d callbacks", len(want))}, &walkObs{}
	}
	if obs.CursorFail != "" {
		return &Failure{Check: "cursor-entry", Observed: obs.CursorFail}, obs
	}
	if obs.NestedFail != "" {
		return &Failure{Check: "cursor-after-nested", Observed: obs.NestedFail}, obs
	}
	n := len(want)
	if len(obs.Hist) < n {
		n = len(obs.Hist)
	}
	for i := 0; i < n; i++ {
		if obs.Hist[i] != want[i] {
			return &Failure{Check: "history", Observed: fmt.Sprintf("callback %d differs: %s", i, describeHist(obs.Hist, i)), Expected: describeHist(want, i)}, obs
		}
	}
	if obs.Callbacks != len(want) {
		return &Failure{Check: "history", Observed: fmt.Sprintf("%d callbacks; tail: %s", obs.Callbacks, describeHist(obs.Hist, len(obs.Hist)-1)), Expected: fmt.Sprintf("%d callbacks; tail: %s", len(want), describeHist(want, len(want)-1))}, obs
	}
	if obs.Aborts > 0 || obs.Unwound {
		// sequel: a complete walk right after an aborted one (or one that a
		// callback left by panicking) must be unaffected by it
		full := *ws
		full.Tape, full.Reentrant = "", false
		want2 := refWalk(v, &full)
		var obs2 *walkObs
		func() {
			defer func() {
				if r := recover(); r != nil {
					if _, ok := r.(walkOverrun); !ok {
						panic(r)
					}
				}
			}()
			obs2 = realWalk(v, &full, blocks, len(want2)+8, len(want2)+8)
		}()
		if obs2 == nil {
			return &Failure{Check: "history", Observed: "a walk following an aborted walk made more callbacks than the reference model"}, obs
		}
		for i := 0; i < len(want2) && i < len(obs2.Hist); i++ {
			if obs2.Hist[i] != want2[i] {
				return &Failure{Check: "history", Observed: fmt.Sprintf("walk following an aborted walk: callback %d differs: %s", i, describeHist(obs2.Hist, i)), Expected: describeHist(want2, i)}, obs
			}
		}
		if obs2.Callbacks != len(want2) {
			return &Failure{Check: "history", Observed: fmt.Sprintf("walk following an aborted walk: %d callbacks", obs2.Callbacks), Expected: fmt.Sprintf("%d callbacks", len(want2))}, obs
		}
		if obs.SequelRan {
			for i := 0; i < len(want2) && i < len(obs.SequelHist); i++ {
				if obs.SequelHist[i] != want2[i] {
					return &Failure{Check: "history", Observed: fmt.Sprintf("a complete walk given the SAME *WalkOptions right after an aborted walk: callback %d differs: %s", i, describeHist(obs.SequelHist, i)), Expected: describeHist(want2, i)}, obs
				}
			}
			if len(obs.SequelHist) != len(want2) {
				return &Failure{Check: "history", Observed: fmt.Sprintf("a complete walk given the SAME *WalkOptions right after an aborted walk made %d callbacks; tail: %s", len(obs.SequelHist), describeHist(obs.SequelHist, len(obs.SequelHist)-1)), Expected: fmt.Sprintf("%d callbacks", len(want2))}, obs
			}
		}
	}
	return nil, obs
}
