package main

import (
	"bufio"
	"context"
	"encoding/json"
	"flag"
	"fmt"
	"os"
	"os/exec"
	"path/filepath"
	"sort"
	"strings"
	"sync"
	"time"
)

type knownEntry struct {
	Property, Check, DocSHA, Text string
}

func loadKnown(path string) (known []knownEntry, fixed []string) {
	f, err := os.Open(path)
	if err != nil {
		return nil, nil
	}
	defer f.Close()
	sc := bufio.NewScanner(f)
	for sc.Scan() {
		line := strings.TrimSpace(sc.Text())
		switch {
		case strings.HasPrefix(line, "known:"):
			e := knownEntry{Text: strings.TrimSpace(strings.TrimPrefix(line, "known:"))}
			for _, tok := range strings.Fields(e.Text) {
				switch {
				case strings.HasPrefix(tok, "property="):
					e.Property = strings.TrimPrefix(tok, "property=")
				case strings.HasPrefix(tok, "check="):
					e.Check = strings.TrimPrefix(tok, "check=")
				case strings.HasPrefix(tok, "doc_sha256="):
					e.DocSHA = strings.TrimPrefix(tok, "doc_sha256=")
				}
			}
			known = append(known, e)
		case strings.HasPrefix(line, "fixed:"):
			fixed = append(fixed, line)
		}
	}
	return
}

func parseKV(s string) map[string]string {
	m := map[string]string{}
	for _, kv := range strings.Split(s, ",") {
		if i := strings.IndexByte(kv, '='); i > 0 {
			m[kv[:i]] = kv[i+1:]
		}
	}
	return m
}

func driverMain(args []string) {
	fs := flag.NewFlagSet("driver", flag.ExitOnError)
	prop := fs.String("prop", "", "")
	tier := fs.String("tier", "quick", "")
	seed := fs.Uint64("seed", 0, "")
	binsArg := fs.String("bins", "", "variant=path,...")
	sitesArg := fs.String("nsites", "", "variant=n,...")
	siteFilesArg := fs.String("sitefiles", "", "variant=path of the instrumenter's site table,...")
	evidence := fs.String("evidence", "", "")
	replays := fs.String("replays", "", "")
	knownPath := fs.String("known", "", "")
	workers := fs.Int("workers", 16, "")
	scratch := fs.String("scratch", "", "")
	only := fs.String("phases", "", "comma-separated phase filter (experiments)")
	scale := fs.Float64("scale", 1, "multiply run counts (experiments)")
	knobSeam := fs.String("knobseam", "present", "")
	logDigests := fs.String("logdigests", "", "write per-phase event-log digests here (determinism self-test)")
	fs.Parse(args)
	start := time.Now()
	os.Setenv("VERIF_SCRATCH_DIR", *scratch)
	bins := parseKV(*binsArg)
	nsites := parseKV(*sitesArg)
	siteFiles := parseKV(*siteFilesArg)
	if *seed == 0 {
		if *tier == "quick" {
			*seed = 20260929
		} else {
			*seed = 77001
		}
	}
	seeds := []uint64{*seed}
	if *tier == "thorough" {
		seeds = append(seeds, *seed+1, *seed+2, *seed+3)
	}
	fmt.Printf("VERIF_SEED=%d property=%s tier=%s seeds=%v workers=%d\n", *seed, *prop, *tier, seeds, *workers)
	phases := phasesFor(*prop)
	if phases == nil {
		die("unknown property %s", *prop)
	}
	filter := map[string]bool{}
	for _, p := range strings.Split(*only, ",") {
		if p != "" {
			filter[p] = true
		}
	}
	limit := 20 * time.Minute
	if *tier == "thorough" {
		limit = 7 * time.Hour
	}
	ctx, cancel := context.WithTimeout(context.Background(), limit)
	defer cancel()

	type phaseSum struct {
		Name, Variant string
		Runs, Evals   int
		WallS         float64
	}
	total := newStats()
	var sums []phaseSum
	var failures []*Scenario
	var samples []*Scenario
	var trouble []string // workers that stalled / crashed / lost their generator
	digestLines := []string{}
	variantsUsed := map[string]bool{}
	sitesHit := map[string]map[uint32]bool{} // variant -> yield sites executed by any worker
	for _, ph := range phases {
		if len(filter) > 0 && !filter[ph.Name] {
			continue
		}
		count := ph.Quick
		if *tier == "thorough" {
			count = ph.Thor
		}
		count = int(float64(count) * *scale)
		if count <= 0 {
			continue
		}
		variant := ph.Variant
		bin := bins[variant]
		if bin == "" {
			die("no binary for variant %s (phase %s)", variant, ph.Name)
		}
		variantsUsed[variant] = true
		for _, sd := range seeds {
			pstart := time.Now()
			outs := make([]*workerOut, *workers)
			errs := make([]error, *workers)
			var wg sync.WaitGroup
			for w := 0; w < *workers; w++ {
				w := w
				wg.Add(1)
				go func() {
					defer wg.Done()
					out := filepath.Join(*scratch, fmt.Sprintf("w-%s-%s-%d-%d.json", *prop, ph.Name, sd, w))
					a := []string{"worker", "-prop", *prop, "-phase", ph.Name, "-seed", fmt.Sprint(sd), "-runs", fmt.Sprint(count),
						"-worker", fmt.Sprint(w), "-workers", fmt.Sprint(*workers), "-out", out, "-variant", variant, "-tier", *tier}
					if n := nsites[variant]; n != "" {
						a = append(a, "-nsites", n)
					}
					if sf := siteFiles[variant]; sf != "" {
						a = append(a, "-sitefile", sf)
					}
					if variant == "race" || variant == "dense" {
						a = append(a, "-racelog", out+".racelog")
					}
					cmd := exec.CommandContext(ctx, bin, a...)
					cmd.Env = workerEnv()
					var stderr strings.Builder
					cmd.Stderr = &stderr
					cmd.Stdout = &stderr // race-variant workers redirect fd 2 into their race log; watchdog messages go to stdout
					if err := cmd.Run(); err != nil {
						errs[w] = fmt.Errorf("worker %d of %s/%s: %v: %s", w, *prop, ph.Name, err, trunc(stderr.String(), 2000))
						return
					}
					b, err := os.ReadFile(out)
					if err != nil {
						errs[w] = err
						return
					}
					var o workerOut
					if err := json.Unmarshal(b, &o); err != nil {
						errs[w] = err
						return
					}
					outs[w] = &o
					os.Remove(out)
					os.Remove(out + ".racelog")
				}()
			}
			wg.Wait()
			for _, e := range errs {
				if e != nil {
					if ctx.Err() != nil {
						die("watchdog: wall-clock limit %v exceeded (%v)", limit, e)
					}
					// a worker that stalled, crashed or lost its generator is
					// harness trouble (exit 2 in the end) - but what the OTHER
					// workers and the earlier phases found is still evaluated: a
					// violation that replays in a fresh process is a violation
					// whatever else went wrong (a hang on a plain build is
					// C04's to report; the corruption that precedes it is not)
					trouble = append(trouble, e.Error())
				}
			}
			ps := phaseSum{Name: ph.Name, Variant: variant, WallS: time.Since(pstart).Seconds()}
			var ld uint64
			for _, o := range outs {
				if o == nil {
					continue
				}
				ps.Runs += o.Runs
				ps.Evals += o.Evaluations
				total.Evaluations += o.Evaluations
				total.Skipped += o.Skipped
				for _, d := range o.Digests {
					total.Digests[d] = struct{}{}
				}
				for _, d := range o.SchedDigests {
					total.SchedDigests[d] = struct{}{}
				}
				for _, t := range o.Triples {
					total.Triples[t] = struct{}{}
				}
				for k, v := range o.Faults {
					total.Faults[k] += v
				}
				for k, v := range o.Probes {
					total.Probes[k] += v
				}
				for k, v := range o.Logical {
					total.Logical[k] += v
				}
				if o.MaxStepRatio > total.MaxStepRatio {
					total.Worst = o.Worst
					total.MaxStepRatio = o.MaxStepRatio
				}
				if len(o.SitesHit) > 0 {
					if sitesHit[variant] == nil {
						sitesHit[variant] = map[uint32]bool{}
					}
					for _, id := range o.SitesHit {
						sitesHit[variant][id] = true
					}
				}
				failures = append(failures, o.Failures...)
				if len(samples) < 5 {
					for _, s := range o.Samples {
						if len(samples) < 5 {
							samples = append(samples, s)
						}
					}
				}
				ld += o.LogDigest
			}
			digestLines = append(digestLines, fmt.Sprintf("%s seed=%d evals=%d log=%016x", ph.Name, sd, ps.Evals, ld))
			sums = append(sums, ps)
			fmt.Printf("phase %-12s variant=%-5s seed=%d runs=%d evaluations=%d failures_so_far=%d wall=%.1fs\n", ph.Name, variant, sd, ps.Runs, ps.Evals, len(failures), ps.WallS)
			if len(trouble) > 0 {
				break
			}
		}
		if len(trouble) > 0 {
			fmt.Printf("harness trouble in phase %s, later phases not run: %s\n", ph.Name, trunc(trouble[0], 600))
			break
		}
	}
	if *logDigests != "" {
		os.WriteFile(*logDigests, []byte(strings.Join(digestLines, "\n")+"\n"), 0o644)
	}

	// ---- failures: pick the earliest per check id, minimise, replay fresh ----
	known, _ := loadKnown(*knownPath)
	sort.SliceStable(failures, func(i, j int) bool {
		a, b := failures[i], failures[j]
		if a.Check != b.Check {
			return a.Check < b.Check
		}
		if a.Seed != b.Seed {
			return a.Seed < b.Seed
		}
		if len(a.Doc) != len(b.Doc) {
			return len(a.Doc) < len(b.Doc)
		}
		return a.Run < b.Run
	})
	violations := 0
	unrepro := 0
	knownHits := 0
	doneCheck := map[string]bool{}
	for _, f := range failures {
		if doneCheck[f.Check] || len(doneCheck) >= 4 {
			continue
		}
		doneCheck[f.Check] = true
		bin := bins[f.Variant]
		os.MkdirAll(*replays, 0o755)
		raw := filepath.Join(*scratch, fmt.Sprintf("fail-%s-%s.json", *prop, f.Check))
		if err := writeScenario(raw, f); err != nil {
			die("%v", err)
		}
		final := filepath.Join(*replays, fmt.Sprintf("%s-%s-seed%d-run%d.json", *prop, f.Check, f.Seed, f.Run))
		extra := []string{}
		if n := nsites[f.Variant]; n != "" {
			extra = append(extra, "-nsites", n)
		}
		rl := filepath.Join(*scratch, "replay.racelog")
		// does the scenario alone reproduce in a fresh process?  If not, the
		// defect leaks state between calls: prepend the worker's recorded history.
		code, rout := runReplay(bin, raw, rl, extra)
		if code != 1 {
			for _, depth := range []int{8, 64, 1 << 30} {
				genArgs := append([]string{"-tier", *tier}, extra...)
				if sf := siteFiles[f.Variant]; sf != "" {
					genArgs = append(genArgs, "-sitefile", sf)
				}
				pre, err := buildPrelude(bin, f, depth, *workers, genArgs)
				if err != nil {
					die("rebuilding history: %v", err)
				}
				f.Prelude = pre
				if err := writeScenario(raw, f); err != nil {
					die("%v", err)
				}
				code, rout = runReplay(bin, raw, rl, extra)
				if code == 1 || len(pre) == 0 {
					break
				}
			}
		}
		flaky := 0
		if code != 1 && (f.Variant == "race" || f.Variant == "dense") {
			// Under -race the Go runtime's sync.Pool drops and skips objects at
			// random (not seedable), so a defect that involves pooled state may
			// need several fresh processes before it shows again.
			for attempt := 1; attempt <= 10 && code != 1; attempt++ {
				code, rout = runReplay(bin, raw, rl, extra)
				flaky = attempt
			}
		}
		if code == 1 && flaky > 0 {
			f.Note = fmt.Sprintf("NOT MINIMISED; reproduced in a fresh process only at attempt %d: the scenario involves state that goes through sync.Pool, whose behaviour under the race detector is randomised inside the Go runtime (outside the simulator's control); replay may have to be repeated", flaky+1)
			writeScenario(final, f)
			violations++
			fmt.Printf("violation detail: check=%s variant=%s (flaky replay, see note in file) %s\n", f.Check, f.Variant, trunc(strings.ReplaceAll(rout, "\n", " | "), 1200))
			fmt.Printf("VIOLATION property=%s replay=%s\n", *prop, final)
			continue
		}
		if code != 1 {
			unrepro++
			fmt.Printf("NOTE: a %s/%s failure seen by a worker (seed %d run %d) does not reproduce in a fresh process, even with the worker's full history (exit %d): %s\n", *prop, f.Check, f.Seed, f.Run, code, trunc(strings.ReplaceAll(rout, "\n", " | "), 600))
			continue
		}
		margs := append([]string{"minimise", "-in", raw, "-out", final, "-racelog", rl}, extra...)
		mc := exec.Command(bin, margs...)
		mc.Env = workerEnv()
		if out, err := mc.CombinedOutput(); err != nil {
			die("minimiser failed for %s: %v: %s", f.Check, err, trunc(string(out), 2000))
		}
		// fresh-process replay of the minimised scenario must fail identically
		raceVariant := f.Variant == "race" || f.Variant == "dense"
		tries := 1
		if raceVariant {
			tries = 4 // pooled state under -race is randomised inside the Go runtime
		}
		code = 0
		for a := 0; a < tries && code != 1; a++ {
			code, rout = runReplay(bin, final, rl, extra)
		}
		if code != 1 {
			// fall back to the unminimised scenario
			if raceVariant {
				tries = 10
			}
			f.Note = "NOT MINIMISED: the minimised scenario did not fail again in a fresh process"
			writeScenario(final, f)
			for a := 0; a < tries && code != 1; a++ {
				code, rout = runReplay(bin, final, rl, extra)
			}
			if code != 1 {
				os.Remove(final)
				if !raceVariant {
					die("harness defect: violation %s/%s reproduced once but not twice in fresh processes (exit %d): %s", *prop, f.Check, code, trunc(rout, 1500))
				}
				unrepro++
				fmt.Printf("NOTE: a %s/%s failure (seed %d run %d) reproduced once in a fresh process but not again in %d further attempts (state that goes through sync.Pool is randomised under the race detector); not reported\n", *prop, f.Check, f.Seed, f.Run, tries)
				continue
			}
		}
		min, err := readScenario(final)
		if err != nil {
			die("%v", err)
		}
		matched := false
		for _, k := range known {
			if k.Property == *prop && k.Check == min.Check && (k.DocSHA == "" || k.DocSHA == min.DocSHA) {
				fmt.Printf("KNOWN-FINDING: property=%s %s\n", *prop, k.Text)
				matched = true
				knownHits++
				os.Remove(final)
				break
			}
		}
		if !matched {
			violations++
			fmt.Printf("violation detail: check=%s variant=%s %s\n", min.Check, min.Variant, trunc(strings.ReplaceAll(rout, "\n", " | "), 1200))
			fmt.Printf("VIOLATION property=%s replay=%s\n", *prop, final)
		}
	}

	// ---- evidence ----
	wall := time.Since(start).Seconds()
	level := "exploration"
	if *prop == "C20" {
		level = "fault_enumeration"
	}
	var sampleVals []interface{}
	for _, s := range samples {
		sampleVals = append(sampleVals, s)
	}
	if len(sampleVals) == 0 {
		sampleVals = append(sampleVals, "no sample recorded")
	}
	phasesOut := []map[string]interface{}{}
	for _, p := range sums {
		phasesOut = append(phasesOut, map[string]interface{}{"phase": p.Name, "variant": p.Variant, "run_indices": p.Runs, "evaluations": p.Evals, "wall_s": round1(p.WallS)})
	}
	cov := map[string]interface{}{
		"evaluations":                       total.Evaluations,
		"distinct_nontrivial":               len(total.Digests),
		"rule":                              ruleFor(*prop),
		"samples":                           sampleVals,
		"phases":                            phasesOut,
		"seeds":                             seeds,
		"runs_per_hour":                     int(float64(total.Evaluations) / wall * 3600),
		"skipped_reference_panicked":        total.Skipped,
		"logical_time":                      total.Logical,
		"simulated_clock":                   "none: the code under test reads no clock; time base is logical (seam events and yield steps)",
		"faults_injected":                   total.Faults,
		"fault_kinds_not_present_in_system": []string{"network", "disk", "clock skew", "allocation failure", "process crash"},
		"probes":                            total.Probes,
		"components_real":                   []string{"BlockParser", "Parse", "ReferenceMap.Extract", "InlineParser.Rewrite", "HTMLRenderer.Render/AppendBlock", "format.Format", "Walk"},
		"components_stub":                   stubsFor(*prop),
		"build_variants":                    keys(variantsUsed),
		"knob_seam":                         *knobSeam,
		"known_findings_hit":                knownHits,
	}
	if len(trouble) > 0 {
		cov["harness_trouble"] = trouble
	}
	if es := envSeam(siteFiles); len(es) > 0 {
		cov["environment_seam"] = es
	}
	if sc := siteCoverage(sitesHit, siteFiles); len(sc) > 0 {
		cov["yield_site_reach"] = sc
	}
	if *prop == "C04" {
		cov["max_steps_over_budget"] = total.MaxStepRatio
		if total.Worst != nil {
			cov["closest_to_step_budget"] = total.Worst
		}
		cov["step_budget"] = "B(n)=1024*(n+64)^2 yield steps per stage for an n-byte document"
	}
	if *prop == "C19" {
		cov["interleavings"] = map[string]int{"distinct_schedule_digests": len(total.SchedDigests), "distinct_preemption_triples": len(total.Triples)}
	}
	if *prop == "C08" || *prop == "C01" {
		cov["enumerated_per_document"] = "phase part-enum: every partition of a tiny document (<= 11 bytes) into reads; phases trunc-enum / B-enum: every cut / fault point k in [0,len]"
	}
	if *prop == "C20" {
		cov["exhaustive"] = false
		cov["enumerated_per_document"] = "every failing write index j in [0,W) for the io.Writer and io.StringWriter flavours (and for the richwriter flavour: every j in thorough, every third j in quick)"
	}
	ev := map[string]interface{}{
		"property_id": *prop, "tier": *tier, "seed": *seed, "level": level, "coverage": cov,
		"assumptions": assumptionsFor(*prop), "wall_s": round1(wall), "violations": violations,
	}
	if *evidence != "" {
		b, _ := json.MarshalIndent(ev, "", " ")
		os.MkdirAll(filepath.Dir(*evidence), 0o755)
		if err := os.WriteFile(*evidence, append(b, '\n'), 0o644); err != nil {
			die("evidence: %v", err)
		}
	}
	warnProbes(*prop, *tier, total)
	fmt.Printf("done property=%s tier=%s evaluations=%d distinct_nontrivial=%d violations=%d known=%d wall=%.1fs\n", *prop, *tier, total.Evaluations, len(total.Digests), violations, knownHits, wall)
	if violations > 0 {
		os.Exit(1)
	}
	if len(trouble) > 0 {
		die("%s", trouble[0])
	}
	if unrepro > 0 && knownHits == 0 {
		die("harness defect: %d failure class(es) seen by workers did not reproduce in a fresh process and none did", unrepro)
	}
}

// buildPrelude regenerates the scenarios the failing worker executed before
// the failing one (at most depth run indices back).
func buildPrelude(bin string, f *Scenario, depth, workers int, extra []string) ([]*Scenario, error) {
	back := f.Run / workers
	if back > depth {
		back = depth
	}
	from := f.Run - back*workers
	a := append([]string{"gen", "-prop", f.Property, "-phase", f.Phase, "-seed", fmt.Sprint(f.Seed), "-from", fmt.Sprint(from),
		"-to", fmt.Sprint(f.Run), "-stride", fmt.Sprint(workers), "-variant", f.Variant}, extra...)
	cmd := exec.Command(bin, a...)
	cmd.Env = workerEnv()
	out, err := cmd.Output()
	if err != nil {
		return nil, err
	}
	var pre []*Scenario
	sc := bufio.NewScanner(strings.NewReader(string(out)))
	sc.Buffer(make([]byte, 1<<20), 1<<28)
	for sc.Scan() {
		var s Scenario
		if err := json.Unmarshal(sc.Bytes(), &s); err != nil {
			return nil, err
		}
		if s.Run < f.Run || (s.Run == f.Run && s.Sub < f.Sub) {
			pre = append(pre, &s)
		}
	}
	return pre, sc.Err()
}

func round1(x float64) float64 { return float64(int(x*10+0.5)) / 10 }

func keys(m map[string]bool) []string {
	var out []string
	for k := range m {
		out = append(out, k)
	}
	sort.Strings(out)
	return out
}

func workerEnv() []string {
	env := []string{}
	for _, e := range os.Environ() {
		if strings.HasPrefix(e, "GORACE=") || strings.HasPrefix(e, "GOMAXPROCS=") || strings.HasPrefix(e, "GOMEMLIMIT=") {
			continue
		}
		env = append(env, e)
	}
	gmp := os.Getenv("VERIF_GOMAXPROCS")
	if gmp == "" {
		gmp = "1"
	}
	env = append(env, "GOMAXPROCS="+gmp, "GORACE=halt_on_error=0 exitcode=0 atexit_sleep_ms=0", "GOMEMLIMIT=3GiB")
	return env
}

// siteCoverage: which instrumented function entries / loop bodies of the code
// under test the workload of this run executed at least once, per build
// variant, with the ones it never reached written out.
// envSeam reports, per instrumented variant, which environment reads of the
// code under test were redirected to the simulator and which were left alone.
func envSeam(siteFiles map[string]string) map[string]interface{} {
	out := map[string]interface{}{}
	for variant, f := range siteFiles {
		b, err := os.ReadFile(f)
		if err != nil {
			continue
		}
		var t struct {
			Env   map[string]int `json:"env_redirected"`
			EnvNo map[string]int `json:"env_not_simulated"`
		}
		if json.Unmarshal(b, &t) != nil {
			continue
		}
		out[variant] = map[string]interface{}{"redirected_to_simulator": t.Env, "not_simulated": t.EnvNo,
			"note": "time.Now/Since/Until/Sleep, runtime.NumCPU/GOMAXPROCS(0), global math/rand functions; decided per scenario (Scenario.env)"}
	}
	return out
}

func siteCoverage(hit map[string]map[uint32]bool, siteFiles map[string]string) map[string]interface{} {
	out := map[string]interface{}{}
	for variant, hs := range hit {
		b, err := os.ReadFile(siteFiles[variant])
		if err != nil {
			continue
		}
		var t struct {
			Sites []struct {
				ID   uint32 `json:"id"`
				File string `json:"file"`
				Line int    `json:"line"`
				Kind string `json:"kind"`
				Func string `json:"func"`
			} `json:"sites"`
		}
		if json.Unmarshal(b, &t) != nil {
			continue
		}
		var unhit []string
		for _, s := range t.Sites {
			if !hs[s.ID] {
				unhit = append(unhit, fmt.Sprintf("%s:%d %s (%s)", s.File, s.Line, s.Func, s.Kind))
			}
		}
		sort.Strings(unhit)
		n := len(unhit)
		if len(unhit) > 80 {
			unhit = append(unhit[:80], fmt.Sprintf("... %d more", n-80))
		}
		out[variant] = map[string]interface{}{"sites_total": len(t.Sites), "sites_executed": len(t.Sites) - n, "never_executed": unhit}
	}
	return out
}

func runReplay(bin, file, racelog string, extra []string) (int, string) {
	a := append([]string{"replay", "-racelog", racelog}, extra...)
	a = append(a, file)
	cmd := exec.Command(bin, a...)
	cmd.Env = workerEnv()
	out, err := cmd.Output()
	code := 0
	if ee, ok := err.(*exec.ExitError); ok {
		code = ee.ExitCode()
	} else if err != nil {
		code = 2
	}
	return code, string(out)
}

func ruleFor(prop string) string {
	switch prop {
	case "C01", "C08", "C04":
		return "each evaluation is one explicit scenario (document, read schedule, terminal style, fault, knobs, extra calls" +
			map[string]string{"C04": ", writer fault, renderer configurations, walk policy", "C01": "", "C08": ""}[prop] +
			") generated from splitmix64(VERIF_SEED, phase, run index); a scenario is non-trivial when it differs from the only case the pinned tests use (whole document in one read, separate EOF, no fault, real constants): more than one data read, or an empty read, or a fault/early EOF, or data returned with the terminal condition, or a knob override; distinct = distinct scenario digests (FNV over the scenario JSON without seed/run)"
	case "C18":
		return "each evaluation is one (tree, view, decision tape) walk compared with the recursive reference walker; non-trivial = at least one prune, abort or nested walk fired, or a non-default view, or a nil callback; distinct = distinct scenario digests"
	case "C19":
		return "each evaluation is one explicit interleaving scenario (2-8 tasks, switch list) executed under the hidden hand-off scheduler; non-trivial = at least one context switch between tasks was performed; distinct = distinct scenario digests"
	case "C20":
		return "each evaluation is one (document, writer behaviour); for every generated document the healthy run plus EVERY failing write index for both writer flavours plus sampled byte budgets are run; non-trivial = the injected write failure fired; distinct = distinct scenario digests"
	}
	return ""
}

func stubsFor(prop string) []string {
	switch prop {
	case "C01", "C08":
		return []string{"io.Reader (SimReader: schedule, faults, recovering after error)"}
	case "C04":
		return []string{"io.Reader (SimReader)", "io.Writer (SimWriter)", "Walk callbacks and child functions", "FilterTag predicates"}
	case "C18":
		return []string{"Pre/Post callbacks (decision tape)", "ChildCount/Child (virtual root, reversed, filtered views)"}
	case "C19":
		return []string{"task scheduler (hidden hand-off, who runs next)", "io.Reader", "io.Writer", "Walk callbacks", "FilterTag"}
	case "C20":
		return []string{"io.Writer / io.StringWriter (SimWriter: failing call index, byte budget, different error afterwards)"}
	}
	return nil
}

func assumptionsFor(prop string) []string {
	a := []string{
		"sampling, not proof: documents come from the committed corpus and seeded derivations; schedules/faults/tapes are sampled except where a phase is named *-enum",
		"the Go toolchain, the race detector and the standard library are trusted",
	}
	switch prop {
	case "C01":
		a = append(a, "the in-memory clauses (aliasing, non-mutation, Parse's line counter) have no schedule in them; they are evaluated on the workload as the zero-read configuration and have the strength of input sampling only")
	case "C04":
		a = append(a, "\"loops forever\" is decided as exceeding B(n) yield steps on the instrumented copy (instrumentation only adds simrt.Yield calls)", "which byte strings panic is an input question; the simulation contributes the cut point, schedule, fault and configuration dimensions")
	case "C19":
		a = append(a, "the hidden hand-off relies on amd64 store ordering and on the compiler not caching globals across runtime.Gosched; guarded by the determinism self-test", "yield granularity is function entry and loop iteration (every statement in the dense phase); the race detector's verdict does not depend on where switches fall")
	case "C20":
		a = append(a, "only the first sentence of C20 is decided; the canonical-document clause has no schedule or fault in it and is not applicable to this technique")
	}
	return a
}

func warnProbes(prop, tier string, st *runStats) {
	want := map[string][]string{
		"C01": {"cut_between_CR_and_LF", "cut_inside_NUL_run", "cut_inside_multibyte_sequence", "block_served_from_leftover_queue_without_read", "block_assembled_from_several_reads"},
		"C08": {"cut_between_CR_and_LF", "cut_inside_NUL_run", "cut_inside_multibyte_sequence", "block_served_from_leftover_queue_without_read", "several_reference_definitions_split_off_one_paragraph"},
	}
	for _, p := range want[prop] {
		if st.Probes[p] == 0 {
			fmt.Printf("WARNING: probe %s was never hit in this %s run\n", p, tier)
		}
	}
}
