#!/bin/bash
# Run once after a fresh restore, offline: builds the instrumenter and every
# simulator build variant once so that the Go build cache (including the
# race-instrumented standard library) is warm.  Nothing is kept between
# invocations except the Go build cache.
set -e
cd "$(dirname "$0")"
export GOFLAGS=-mod=mod GOPROXY=off GOSUMDB=off GOTOOLCHAIN=local
./check build all
